//! Harness-defined piece types: the generic parameter of Piecewise<T> is the observation hook.

use crate::gen::mix2;
use piecewise_polynomial::*;
use std::cell::RefCell;
use std::ops::{Add, Mul, MulAssign, Neg, Sub};

thread_local! {
    /// logical step budget for symbolic pair operations (a merge that produces more pieces than
    /// len f + len g can only be a runaway loop): exceeded => panic caught by the monitor
    pub static PAIR_BUDGET: std::cell::Cell<i64> = std::cell::Cell::new(i64::MAX);
    pub static TAG_LOG: RefCell<Vec<(u32, u64)>> = RefCell::new(Vec::new());
    pub static TR_LOG: RefCell<Vec<TrEvent>> = RefCell::new(Vec::new());
}

/// Injective-in-practice encoding of (segment id, argument bits) as a finite f64 so that the value
/// returned by any evaluation path reveals which piece was evaluated at which argument.
pub fn tagval(id: u32, x: f64) -> f64 {
    let h = mix2(0x7A67_0000 ^ id as u64, x.to_bits());
    // clear the top exponent bit: exponent <= 0x3ff => finite, |value| < 2
    f64::from_bits(h & !(1u64 << 62))
}

#[derive(Debug, Clone, Copy, PartialEq)]
pub struct Tag {
    pub id: u32,
}
impl Evaluate for Tag {
    fn evaluate(&self, x: f64) -> f64 {
        // the returned value itself identifies (piece, argument); no side log (it would grow without bound in long runs)
        tagval(self.id, x)
    }
}
pub fn tag_log_clear() {
    TAG_LOG.with(|l| l.borrow_mut().clear());
}
pub fn tag_log_take() -> Vec<(u32, u64)> {
    TAG_LOG.with(|l| std::mem::take(&mut *l.borrow_mut()))
}
pub fn tag_pw(ends: &[f64]) -> Piecewise<Tag> {
    Piecewise {
        segments: ends
            .iter()
            .enumerate()
            .map(|(i, e)| Segment {
                end: *e,
                poly: Tag { id: i as u32 },
            })
            .collect(),
    }
}

/// Symbolic pair for + and -: which left piece met which right piece under which operator.
#[derive(Debug, Clone, Copy, PartialEq)]
pub struct Pair {
    pub l: i32,
    pub r: i32,
    pub op: u8,
}
impl<'a, 'b> Add<&'b Pair> for &'a Pair {
    type Output = Pair;
    fn add(self, o: &'b Pair) -> Pair {
        pair_step();
        Pair {
            l: self.l,
            r: o.r,
            op: b'+',
        }
    }
}
impl<'a, 'b> Sub<&'b Pair> for &'a Pair {
    type Output = Pair;
    fn sub(self, o: &'b Pair) -> Pair {
        pair_step();
        Pair {
            l: self.l,
            r: o.r,
            op: b'-',
        }
    }
}
fn pair_step() {
    PAIR_BUDGET.with(|b| {
        let v = b.get() - 1;
        b.set(v);
        if v < 0 {
            panic!("VERIF logical bound exceeded: more piece combinations than len(f)+len(g)+4");
        }
    });
}
pub fn pair_budget(n: i64) {
    PAIR_BUDGET.with(|b| b.set(n));
}
pub fn pair_pw(ends: &[f64], left: bool) -> Piecewise<Pair> {
    Piecewise {
        segments: ends
            .iter()
            .enumerate()
            .map(|(i, e)| Segment {
                end: *e,
                poly: if left {
                    Pair {
                        l: i as i32,
                        r: -1,
                        op: 0,
                    }
                } else {
                    Pair {
                        l: -1,
                        r: i as i32,
                        op: 0,
                    }
                },
            })
            .collect(),
    }
}

/// Operation recorder (Copy): remembers every scalar operation applied to the piece.
#[derive(Debug, Clone, Copy, PartialEq)]
pub struct Rec {
    pub id: u32,
    pub n: u8,
    pub ops: [(u8, u64); 4],
}
impl Rec {
    pub fn new(id: u32) -> Rec {
        Rec {
            id,
            n: 0,
            ops: [(0, 0); 4],
        }
    }
    fn push(&mut self, op: u8, s: f64) {
        if (self.n as usize) < 4 {
            self.ops[self.n as usize] = (op, s.to_bits());
        }
        self.n = self.n.saturating_add(1);
    }
}
impl Mul<f64> for Rec {
    type Output = Rec;
    fn mul(mut self, s: f64) -> Rec {
        self.push(b'*', s);
        self
    }
}
impl MulAssign<f64> for Rec {
    fn mul_assign(&mut self, s: f64) {
        self.push(b'=', s);
    }
}
impl Neg for Rec {
    type Output = Rec;
    fn neg(mut self) -> Rec {
        self.push(b'n', 0.0);
        self
    }
}
impl Translate for Rec {
    fn translate(&mut self, v: f64) {
        self.push(b't', v);
    }
}
impl Evaluate for Rec {
    fn evaluate(&self, x: f64) -> f64 {
        tagval(self.id ^ 0x5EC0, x)
    }
}
impl Evaluate for Pair {
    fn evaluate(&self, x: f64) -> f64 {
        tagval((self.l as u32).wrapping_mul(31).wrapping_add(self.r as u32), x)
    }
}
pub fn rec_pw(ends: &[f64]) -> Piecewise<Rec> {
    let key = ends.iter().fold(ends.len() as u64, |a, e| a.wrapping_mul(31).wrapping_add(e.to_bits() >> 7));
    Piecewise {
        segments: crate::flat::with_spare_capacity(
            ends.iter()
                .enumerate()
                .map(|(i, e)| Segment {
                    end: *e,
                    poly: Rec::new(i as u32),
                })
                .collect(),
            key,
        ),
    }
}

/// Trace probe for derivative / integral: a piece with a known "antiderivative"
/// base(id, x) = id * 1.25 + 0.5 * x  (exact for the small numbers used), shift accumulated by
/// translate. Calls are appended to TR_LOG.
#[derive(Debug, Clone, PartialEq)]
pub enum TrEvent {
    Derivative(u32),
    Indefinite(u32),
    Integral(u32, u64, u64),
    EvalI(u32, u64),
    TranslateI(u32, u64),
}
#[derive(Debug, Clone, Copy, PartialEq)]
pub struct Tr {
    pub id: u32,
}
#[derive(Debug, Clone, Copy, PartialEq)]
pub struct TrD {
    pub id: u32,
}
#[derive(Debug, Clone, Copy, PartialEq)]
pub struct TrI {
    pub id: u32,
    pub shift: f64,
    pub translations: u32,
}
pub fn tr_base(id: u32, x: f64) -> f64 {
    id as f64 * 1.25 + 0.5 * x
}
fn tr_push(e: TrEvent) {
    TR_LOG.with(|l| l.borrow_mut().push(e));
}
pub fn tr_log_take() -> Vec<TrEvent> {
    TR_LOG.with(|l| std::mem::take(&mut *l.borrow_mut()))
}
impl HasDerivative for Tr {
    type DerivativeOf = TrD;
    fn derivative(&self) -> TrD {
        tr_push(TrEvent::Derivative(self.id));
        TrD { id: self.id }
    }
}
impl HasIntegral for Tr {
    type IntegralOf = TrI;
    fn indefinite(&self) -> TrI {
        tr_push(TrEvent::Indefinite(self.id));
        TrI {
            id: self.id,
            shift: 0.0,
            translations: 0,
        }
    }
    fn integral(&self, knot: Knot) -> TrI {
        tr_push(TrEvent::Integral(self.id, knot.x.to_bits(), knot.y.to_bits()));
        let mut i = TrI {
            id: self.id,
            shift: 0.0,
            translations: 0,
        };
        i.shift = knot.y - tr_base(self.id, knot.x);
        i
    }
}
impl Evaluate for TrI {
    fn evaluate(&self, x: f64) -> f64 {
        tr_push(TrEvent::EvalI(self.id, x.to_bits()));
        tr_base(self.id, x) + self.shift
    }
}
impl Translate for TrI {
    fn translate(&mut self, v: f64) {
        tr_push(TrEvent::TranslateI(self.id, v.to_bits()));
        self.shift += v;
        self.translations += 1;
    }
}
pub fn tr_pw(ends: &[f64]) -> Piecewise<Tr> {
    Piecewise {
        segments: ends
            .iter()
            .enumerate()
            .map(|(i, e)| Segment {
                end: *e,
                poly: Tr { id: i as u32 },
            })
            .collect(),
    }
}
