#![allow(dead_code)]
#[path = "../drivers/c18.rs"]
mod c18;

fn main() {
    ppv::mon::main_online(c18::run);
}
