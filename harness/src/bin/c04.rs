#![allow(dead_code)]
#[path = "../drivers/c04.rs"]
mod c04;

fn main() {
    ppv::mon::main_offline(c04::drive_spline);
}
