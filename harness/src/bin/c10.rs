#![allow(dead_code)]
#[path = "../drivers/c09.rs"]
mod c09;

fn main() {
    ppv::mon::main_offline(c09::drive10);
}
