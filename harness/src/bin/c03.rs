#![allow(dead_code)]
#[path = "../drivers/c03.rs"]
mod c03;

fn main() {
    ppv::mon::main_online(c03::run);
}
