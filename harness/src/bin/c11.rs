#![allow(dead_code)]
#[path = "../drivers/c11.rs"]
mod c11;

fn main() {
    ppv::mon::main_offline(c11::drive);
}
