#![allow(dead_code)]
#[path = "../drivers/c12.rs"]
mod c12;

fn main() {
    ppv::mon::main_online(c12::run);
}
