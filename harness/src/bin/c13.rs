#![allow(dead_code)]
#[path = "../drivers/c13.rs"]
mod c13;

fn main() {
    ppv::mon::main_online(c13::run);
}
