//! "Deep" lane: the library compiled WITHOUT optimisation (what `cargo test` / `cargo build` give a user), each
//! operation applied to very large inputs (hundreds of thousands of pieces / knots / coefficients) on a thread with
//! the default 2 MiB stack. Two things are observed that the optimised, moderately sized main lanes cannot show:
//! a call that does not return because it exhausts the stack (recursion per piece, which the optimiser would turn
//! into a loop), and size thresholds beyond 2^15 / 2^16 pieces. Checks are deliberately simple and exact
//! (tag values, piece counts, continuity with a tolerance thousands of times above rounding).
//!
//! Before every library call the name of the operation is written to `<out>.deep`; if the process is killed by the
//! stack guard, run.py reports that operation.

use piecewise_polynomial::*;
use ppv::gen::*;
use ppv::mon::*;
use ppv::probe::*;
use serde_json::json;

const N: usize = 300_007;

struct Ctx<'a> {
    m: &'a mut Mon,
    marker: String,
}
impl<'a> Ctx<'a> {
    fn op<R>(&mut self, name: &str, f: impl FnOnce() -> R) -> Option<R> {
        let _ = std::fs::write(&self.marker, name);
        self.m.eval();
        self.m.count(&format!("deep:{}", name));
        match guard(f) {
            Ok(r) => Some(r),
            Err(p) => {
                self.m.panic(&format!("{} panic on a large input (unoptimised build)", name), &p, || json!({"operation": name, "size": N}));
                None
            }
        }
    }
    fn expect(&mut self, name: &str, ok: bool, detail: impl FnOnce() -> serde_json::Value) {
        self.m.eval();
        if !ok {
            self.m.violation(&format!("{} wrong on a large input (unoptimised build)", name), detail);
        }
    }
}

fn grid(n: usize) -> Vec<f64> {
    (0..n).map(|i| i as f64 * 0.001).collect()
}

fn c02(c: &mut Ctx) {
    let ends = grid(N);
    let pw = tag_pw(&ends);
    for x in [-1.0, 0.0, ends[N / 2], ends[N - 2], ends[N - 1], 1e9, f64::INFINITY] {
        if let Some(v) = c.op("Piecewise::evaluate", || pw.evaluate(x)) {
            let s = sel(&ends, x);
            c.expect("Piecewise::evaluate", v.to_bits() == tagval(s as u32, x).to_bits(), || json!({"x": x, "expected_segment": s, "pieces": N}));
        }
    }
}

fn c03(c: &mut Ctx) {
    let ends = grid(N);
    let pw = tag_pw(&ends);
    let mut ev = PiecewiseEvaluator::new(&pw.segments);
    for x in [ends[N - 1] + 1.0, -1.0, ends[N / 2], ends[70_000], ends[N - 2], ends[3], f64::INFINITY, ends[65_536], ends[65_535]] {
        if let Some(v) = c.op("PiecewiseEvaluator::evaluate", || ev.evaluate(x)) {
            let s = sel(&ends, x);
            c.expect("PiecewiseEvaluator::evaluate", v.to_bits() == tagval(s as u32, x).to_bits(), || json!({"x": x, "expected_segment": s, "pieces": N}));
        }
    }
}

fn c12(c: &mut Ctx) {
    let ends = grid(N);
    let pw = tag_pw(&ends);
    let xs = vec![-1.0, ends[N - 1] + 1.0, ends[N - 1] + 2.0];
    if let Some(vs) = c.op("Piecewise::evaluate_v (one jump over all pieces)", || pw.evaluate_v(xs.clone()).collect::<Vec<f64>>()) {
        let want: Vec<u64> = xs.iter().map(|x| tagval(sel(&ends, *x) as u32, *x).to_bits()).collect();
        c.expect("Piecewise::evaluate_v", vs.iter().map(|v| v.to_bits()).collect::<Vec<_>>() == want, || json!({"pieces": N}));
    }
    let dense: Vec<f64> = (0..N).step_by(101).map(|i| ends[i]).collect();
    if let Some(vs) = c.op("Piecewise::evaluate_v (dense walk)", || pw.evaluate_v(dense.clone()).collect::<Vec<f64>>()) {
        let ok = vs.len() == dense.len() && vs.iter().zip(dense.iter()).all(|(v, x)| v.to_bits() == tagval(sel(&ends, *x) as u32, *x).to_bits());
        c.expect("Piecewise::evaluate_v", ok, || json!({"pieces": N, "arguments": dense.len()}));
    }
}

fn c13(c: &mut Ctx) {
    let f = grid(N);
    let g: Vec<f64> = (0..N / 2).map(|i| i as f64 * 0.002 + 0.0005).collect();
    let (pf, pg) = (pair_pw(&f, true), pair_pw(&g, false));
    pair_budget(i64::MAX);
    for op in ["add", "sub"] {
        if let Some(res) = c.op(&format!("Piecewise {}", op), || if op == "add" { &pf + &pg } else { &pf - &pg }) {
            let rends: Vec<f64> = res.segments.iter().map(|s| s.end).collect();
            let mut ok = !rends.is_empty() && rends.len() <= f.len() + g.len() - 1;
            for x in [-1.0, f[N / 2], g[N / 4], f[N - 1], 1e9, g[40_000], f[65_536]] {
                if !ok {
                    break;
                }
                let p = res.segments[sel(&rends, x)].poly;
                ok &= p.l == sel(&f, x) as i32 && p.r == sel(&g, x) as i32;
            }
            c.expect(&format!("Piecewise {}", op), ok, || json!({"pieces_f": f.len(), "pieces_g": g.len(), "result_pieces": rends.len()}));
        }
    }
}

fn real_pw(n: usize) -> Piecewise<Poly1> {
    Piecewise { segments: (0..n).map(|i| Segment { end: i as f64 * 0.001, poly: Poly1([(i % 7) as f64 - 3.0, (i % 5) as f64 * 0.5 - 1.0]) }).collect() }
}

fn c15(c: &mut Ctx) {
    let pw = real_pw(N);
    let same_ends = |a: &Piecewise<Poly1>| a.segments.len() == N && a.segments.iter().zip(pw.segments.iter()).all(|(x, y)| x.end.to_bits() == y.end.to_bits());
    if let Some(r) = c.op("Piecewise * f64", || pw.clone() * 2.0) {
        let ok = same_ends(&r) && r.segments.iter().zip(pw.segments.iter()).all(|(x, y)| x.poly.0[0] == 2.0 * y.poly.0[0] && x.poly.0[1] == 2.0 * y.poly.0[1]);
        c.expect("Piecewise * f64", ok, || json!({"pieces": N}));
    }
    if let Some(r) = c.op("Piecewise *= f64", || { let mut q = pw.clone(); q *= 2.0; q }) {
        let ok = same_ends(&r) && r.segments.iter().zip(pw.segments.iter()).all(|(x, y)| x.poly.0[0] == 2.0 * y.poly.0[0] && x.poly.0[1] == 2.0 * y.poly.0[1]);
        c.expect("Piecewise *= f64", ok, || json!({"pieces": N}));
    }
    if let Some(r) = c.op("Piecewise neg", || -(pw.clone())) {
        let ok = same_ends(&r) && r.segments.iter().zip(pw.segments.iter()).all(|(x, y)| x.poly.0[0] == -y.poly.0[0] && x.poly.0[1] == -y.poly.0[1]);
        c.expect("Piecewise neg", ok, || json!({"pieces": N}));
    }
    if let Some(r) = c.op("Piecewise translate", || { let mut q = pw.clone(); q.translate(0.5); q }) {
        let ok = same_ends(&r) && r.segments.iter().zip(pw.segments.iter()).all(|(x, y)| x.poly.0[0] == y.poly.0[0] + 0.5 && x.poly.0[1] == y.poly.0[1]);
        c.expect("Piecewise translate", ok, || json!({"pieces": N}));
    }
}

fn c17(c: &mut Ctx) {
    use approx::{AbsDiffEq, RelativeEq};
    let a = real_pw(N);
    let b = a.clone();
    let mut d = a.clone();
    d.segments[N - 1].poly.0[1] += 1.0;
    let mut short = a.clone();
    short.segments.pop();
    let cases: [(&str, &Piecewise<Poly1>, bool); 3] = [("equal clone", &b, true), ("last piece perturbed", &d, false), ("one piece shorter", &short, false)];
    for (what, other, want) in cases {
        if let Some(r) = c.op(&format!("Piecewise abs_diff_eq ({})", what), || a.abs_diff_eq(other, 1e-9)) {
            c.expect("Piecewise abs_diff_eq", r == want, || json!({"pieces": N, "case": what}));
        }
        if let Some(r) = c.op(&format!("Piecewise relative_eq ({})", what), || a.relative_eq(other, 1e-9, 1e-9)) {
            c.expect("Piecewise relative_eq", r == want, || json!({"pieces": N, "case": what}));
        }
        if let Some(r) = c.op(&format!("Piecewise == ({})", what), || a == *other) {
            c.expect("Piecewise ==", r == want, || json!({"pieces": N, "case": what}));
        }
    }
}

fn c01(c: &mut Ctx) {
    // a very long dynamic-degree polynomial; |x| < 1 so that the value is an ordinary number
    let n = 400_003;
    let co: Vec<f64> = (0..n).map(|i| ((i % 11) as f64 - 5.0) * 0.25).collect();
    let p = PolyN(co.clone());
    for x in [0.5, -0.75, 0.0, 1.0] {
        if let Some(v) = c.op("PolyN::evaluate (400 003 coefficients)", || p.evaluate(x)) {
            let mut want = 0.0f64;
            let mut abs = 0.0f64;
            for cf in co.iter().rev() {
                want = want * x + cf;
                abs = abs * x.abs() + cf.abs();
            }
            c.expect("PolyN::evaluate", (v - want).abs() <= 1e-9 * abs.max(1.0), || json!({"x": x, "observed": v, "reference": want, "coefficients": n}));
        }
    }
}

fn c19(c: &mut Ctx) {
    use arbitrary::{Arbitrary, Unstructured};
    // arbitrary-1.x wire format of Vec<f64>: (flag byte 1, 8 LE bytes)* then flag byte 0; the pieces follow
    let n = 200_003;
    let mut bytes = Vec::with_capacity(n * 9 + 1 + n * 16);
    for i in 0..n {
        bytes.push(1u8);
        bytes.extend_from_slice(&(1.0 + i as f64).to_le_bytes());
    }
    bytes.push(0u8);
    bytes.extend((0..n * 16).map(|i| (i % 251) as u8));
    if let Some(r) = c.op("Piecewise<Poly1>::arbitrary (200 003 ends)", || <Piecewise<Poly1>>::arbitrary(&mut Unstructured::new(&bytes))) {
        match r {
            Err(_) => c.m.count("deep:arbitrary_rejected_large_input"),
            Ok(pw) => {
                let ok = !pw.segments.is_empty() && pw.segments.windows(2).all(|w| w[0].end < w[1].end) && pw.segments.iter().all(|s| s.end.is_normal());
                c.expect("Piecewise::arbitrary", ok, || json!({"pieces": pw.segments.len()}));
                let x = pw.segments[pw.segments.len() / 2].end;
                let _ = c.op("evaluate the generated function", || pw.evaluate(x));
            }
        }
    }
    c01(c);
}

fn c07(c: &mut Ctx) {
    // piecewise derivative / integral / indefinite of a very long function: piece count, ends, continuity
    let pw = real_pw(N);
    if let Some(d) = c.op("Piecewise::derivative", || pw.derivative()) {
        let ok = d.segments.len() == N && d.segments.iter().zip(pw.segments.iter()).all(|(x, y)| x.end.to_bits() == y.end.to_bits() && x.poly.0 == y.poly.0[1]);
        c.expect("Piecewise::derivative", ok, || json!({"pieces": N, "result_pieces": d.segments.len()}));
    }
    for which in ["integral", "indefinite"] {
        let r = c.op(&format!("Piecewise::{}", which), || if which == "integral" { pw.integral(Knot { x: -0.5, y: 1.0 }) } else { pw.indefinite() });
        if let Some(f) = r {
            let mut ok = f.segments.len() == N && f.segments.iter().zip(pw.segments.iter()).all(|(x, y)| x.end.to_bits() == y.end.to_bits());
            let mut worst = 0.0f64;
            let mut at = 0usize;
            if ok {
                for i in 0..N - 1 {
                    let e = f.segments[i].end;
                    let jump = (f.segments[i].poly.evaluate(e) - f.segments[i + 1].poly.evaluate(e)).abs();
                    if jump > worst {
                        worst = jump;
                        at = i;
                    }
                }
                // values stay below 1e3 and terms below 1e5 here: rounding is ~1e-11, a lost piece is ~1e-3
                ok = worst <= 1e-7;
                if which == "integral" {
                    ok &= (f.evaluate(-0.5) - 1.0).abs() <= 1e-9; // the knot lies inside the first piece
                }
            }
            c.expect(&format!("Piecewise::{} (continuity at every breakpoint)", which), ok, || json!({"pieces": N, "largest_jump": worst, "at_breakpoint": at}));
        }
    }
}

fn c04(c: &mut Ctx) {
    for n in [65_538usize, 100_003, 32_771] {
        let knots: Vec<Knot> = (0..n).map(|i| Knot { x: i as f64 * 0.5, y: ((i % 13) as f64 - 6.0) * 0.25 + (i / 1000) as f64 }).collect();
        if let Some(s) = c.op(&format!("constrained_spline ({} knots)", n), || constrained_spline(&knots)) {
            // (cubics are stored in absolute x: far from the origin their terms are ~i^3 times the ordinates, so values
            // are compared only on the first pieces; counts and breakpoints are exact everywhere)
            let mut ok = s.segments.len() == n - 1;
            if ok {
                for i in (0..n - 1).step_by(97).chain([n - 2, n - 3, 65_535.min(n - 2), 65_536.min(n - 2)]) {
                    let sg = &s.segments[i];
                    ok &= sg.end == knots[i + 1].x;
                    if i < 100 {
                        ok &= (sg.poly.evaluate(knots[i].x) - knots[i].y).abs() <= 1e-6 && (sg.poly.evaluate(knots[i + 1].x) - knots[i + 1].y).abs() <= 1e-6;
                    }
                }
            }
            c.expect("constrained_spline", ok, || json!({"knots": n, "pieces": s.segments.len()}));
        }
        if let Some(s) = c.op(&format!("linear ({} knots)", n), || linear(&knots)) {
            let mut ok = s.segments.len() == n - 1;
            if ok {
                for i in (0..n - 1).step_by(97).chain([n - 2, 65_535.min(n - 2), 65_536.min(n - 2)]) {
                    let sg = &s.segments[i];
                    ok &= sg.end == knots[i + 1].x
                        && (sg.poly.evaluate(knots[i].x) - knots[i].y).abs() <= 1e-6
                        && (sg.poly.evaluate(knots[i + 1].x) - knots[i + 1].y).abs() <= 1e-6;
                }
            }
            c.expect("linear", ok, || json!({"knots": n, "pieces": s.segments.len()}));
        }
    }
}

fn run(a: &Args, m: &mut Mon) {
    let prop = a.prop.clone();
    let marker = format!("{}.deep", a.out);
    let res = std::thread::scope(|s| {
        std::thread::Builder::new()
            .stack_size(2 << 20)
            .spawn_scoped(s, move || {
                let mut c = Ctx { m, marker };
                match prop.as_str() {
                    "C01" => c01(&mut c),
                    "C02" => c02(&mut c),
                    "C03" | "C16" => {
                        c03(&mut c);
                        if prop == "C16" {
                            c02(&mut c);
                            c12(&mut c);
                        }
                    }
                    "C04" | "C05" | "C06" => c04(&mut c),
                    "C07" | "C08" | "C11" => c07(&mut c),
                    "C12" => c12(&mut c),
                    "C13" => c13(&mut c),
                    "C15" => c15(&mut c),
                    "C17" => c17(&mut c),
                    "C19" => c19(&mut c),
                    _ => c.m.count("deep:nothing_for_this_property"),
                }
                let _ = std::fs::remove_file(&c.marker);
            })
            .expect("spawn")
            .join()
    });
    if res.is_err() {
        // a panic outside a guarded call: main_online's escaped-panic net has recorded it
        std::panic::resume_unwind(Box::new("deep lane thread panicked"));
    }
}

fn main() {
    main_online(run);
}
