#![allow(dead_code)]
#[path = "../drivers/c07.rs"]
mod c07;

fn main() {
    ppv::mon::main_offline(c07::drive08);
}
