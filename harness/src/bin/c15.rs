#![allow(dead_code)]
#[path = "../drivers/c15.rs"]
mod c15;

fn main() {
    ppv::mon::main_online(c15::run);
}
