#![allow(dead_code)]
#[path = "../drivers/c02.rs"]
mod c02;

fn main() {
    ppv::mon::main_online(c02::run);
}
