#![allow(dead_code)]
#[path = "../drivers/c17.rs"]
mod c17;

fn main() {
    ppv::mon::main_online(c17::run);
}
