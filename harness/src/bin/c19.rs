#![allow(dead_code)]
#[path = "../drivers/c19.rs"]
mod c19;

fn main() {
    ppv::mon::main_online(c19::run);
}
