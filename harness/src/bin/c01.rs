#![allow(dead_code)]
#[path = "../drivers/c01.rs"]
mod c01;

fn main() {
    ppv::mon::main_offline(c01::drive);
}
