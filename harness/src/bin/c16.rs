#![allow(dead_code)]
#[path = "../drivers/c03.rs"]
mod c03;
#[path = "../drivers/c12.rs"]
mod c12;
#[path = "../drivers/c16.rs"]
mod c16;

fn main() {
    ppv::mon::main_online(c16::run);
}
