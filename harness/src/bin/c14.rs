#![allow(dead_code)]
#[path = "../drivers/c14.rs"]
mod c14;

fn main() {
    ppv::mon::main_online(c14::run);
}
