//! Monitor bookkeeping: counters, samples, violations, distinct-case hashes, panic capture,
//! and the per-shard summary written for run.py.

use serde_json::{json, Map, Value};
use std::cell::RefCell;
use std::collections::{BTreeMap, HashSet};
use std::io::Write;
use std::panic::{catch_unwind, AssertUnwindSafe};

thread_local! {
    static LAST_PANIC: RefCell<Option<String>> = RefCell::new(None);
}

pub fn install_panic_hook() {
    std::panic::set_hook(Box::new(|info| {
        let msg = if let Some(s) = info.payload().downcast_ref::<&str>() {
            s.to_string()
        } else if let Some(s) = info.payload().downcast_ref::<String>() {
            s.clone()
        } else {
            "<non-string panic>".to_string()
        };
        let loc = info
            .location()
            .map(|l| format!("{}:{}", l.file(), l.line()))
            .unwrap_or_default();
        LAST_PANIC.with(|p| *p.borrow_mut() = Some(format!("{} @ {}", msg, loc)));
    }));
}

use std::sync::atomic::{AtomicU64, Ordering as AtOrd};
use std::sync::Mutex;

/// heartbeat of guarded library calls: incremented when a guard is entered and when it is left
static GUARD_SEQ: AtomicU64 = AtomicU64::new(0);
static GUARD_DEPTH: AtomicU64 = AtomicU64::new(0);
/// last counter key touched by the monitor (context for a hang report)
static LAST_KEY: Mutex<String> = Mutex::new(String::new());

/// CPU seconds one guarded library call may burn before it is reported as "did not return".
/// (CPU time of the process, not wall-clock: a starved or stopped process never trips it.) Every library call the
/// drivers make takes microseconds to milliseconds; the slowest (JSON of a 100 003-segment function) ~0.2 s.
pub const HANG_CPU_SECONDS: f64 = 60.0;

fn process_cpu_seconds() -> f64 {
    // utime + stime from /proc/self/stat (fields 14 and 15), clock ticks of 1/100 s
    if let Ok(s) = std::fs::read_to_string("/proc/self/stat") {
        if let Some(rest) = s.rsplit(") ").next() {
            let f: Vec<&str> = rest.split_whitespace().collect();
            if f.len() > 13 {
                let u: f64 = f[11].parse().unwrap_or(0.0);
                let k: f64 = f[12].parse().unwrap_or(0.0);
                return (u + k) / 100.0;
            }
        }
    }
    0.0
}

/// Watcher thread: if the process burns HANG_CPU_SECONDS of CPU inside one and the same guarded call, write
/// `<out>.hang` and exit with status 97 (run.py reports it as an observed non-returning library call).
pub fn start_hang_watcher(out: String, prop: String) {
    std::thread::spawn(move || {
        let mut last_seq = u64::MAX;
        let mut cpu_at_change = process_cpu_seconds();
        loop {
            std::thread::sleep(std::time::Duration::from_millis(500));
            let seq = GUARD_SEQ.load(AtOrd::Relaxed);
            let depth = GUARD_DEPTH.load(AtOrd::Relaxed);
            let cpu = process_cpu_seconds();
            if seq != last_seq || depth == 0 {
                last_seq = seq;
                cpu_at_change = cpu;
                continue;
            }
            if cpu - cpu_at_change > HANG_CPU_SECONDS {
                let key = LAST_KEY.lock().map(|k| k.clone()).unwrap_or_default();
                let w = serde_json::json!({"property": prop, "sig": "library call did not return (CPU-time watchdog)",
                    "cpu_seconds_in_one_call": cpu - cpu_at_change, "guarded_calls_completed": seq / 2, "last_counter_key": key});
                let path = if out == "-" || out.is_empty() { format!("/tmp/ppv-{}.hang", std::process::id()) } else { format!("{}.hang", out) };
                let _ = std::fs::write(&path, w.to_string());
                eprintln!("HANG {}", w);
                std::process::exit(97);
            }
        }
    });
}

/// Run a library call; Err(message) if it panicked.
pub fn guard<R>(f: impl FnOnce() -> R) -> Result<R, String> {
    GUARD_SEQ.fetch_add(1, AtOrd::Relaxed);
    GUARD_DEPTH.fetch_add(1, AtOrd::Relaxed);
    let r = guard_inner(f);
    GUARD_DEPTH.fetch_sub(1, AtOrd::Relaxed);
    GUARD_SEQ.fetch_add(1, AtOrd::Relaxed);
    r
}

fn guard_inner<R>(f: impl FnOnce() -> R) -> Result<R, String> {
    match catch_unwind(AssertUnwindSafe(f)) {
        Ok(r) => Ok(r),
        Err(_) => Err(LAST_PANIC
            .with(|p| p.borrow_mut().take())
            .unwrap_or_else(|| "<panic>".into())),
    }
}

pub fn hx(x: f64) -> String {
    format!("{:016x}", x.to_bits())
}
pub fn hxs(xs: &[f64]) -> Vec<String> {
    xs.iter().map(|x| hx(*x)).collect()
}
/// human readable + exact
pub fn fv(x: f64) -> Value {
    json!({"v": format!("{:e}", x), "bits": hx(x)})
}
pub fn fvs(xs: &[f64]) -> Value {
    Value::Array(xs.iter().map(|x| fv(*x)).collect())
}

pub struct Mon {
    pub prop: String,
    pub evaluations: u64,
    pub counters: BTreeMap<String, u64>,
    pub samples: Vec<Value>,
    sample_keys: BTreeMap<String, u32>,
    pub violations: Vec<Value>,
    pub n_violations: u64,
    viol_sigs: BTreeMap<String, u64>,
    pub hashes: HashSet<u64>,
    pub max_ratio: f64,
    pub max_ratio_at: Value,
    pub canaries_fed: u64,
    pub canaries_flagged: u64,
    pub in_canary: bool,
    pub panics: u64,
    pub notes: Vec<String>,
    pub floors: Vec<String>,
    pub extra: Map<String, Value>,
}

impl Mon {
    pub fn new(prop: &str) -> Mon {
        Mon {
            prop: prop.to_string(),
            evaluations: 0,
            counters: BTreeMap::new(),
            samples: Vec::new(),
            sample_keys: BTreeMap::new(),
            violations: Vec::new(),
            n_violations: 0,
            viol_sigs: BTreeMap::new(),
            hashes: HashSet::new(),
            max_ratio: 0.0,
            max_ratio_at: Value::Null,
            canaries_fed: 0,
            canaries_flagged: 0,
            in_canary: false,
            panics: 0,
            notes: Vec::new(),
            floors: Vec::new(),
            extra: Map::new(),
        }
    }
    pub fn floors(&mut self, f: &[&str]) {
        for k in f {
            if !self.floors.iter().any(|x| x == k) {
                self.floors.push(k.to_string());
            }
        }
    }
    pub fn count(&mut self, key: &str) {
        if let Ok(mut k) = LAST_KEY.try_lock() {
            k.clear();
            k.push_str(key);
        }
        *self.counters.entry(key.to_string()).or_insert(0) += 1;
    }
    pub fn add(&mut self, key: &str, n: u64) {
        *self.counters.entry(key.to_string()).or_insert(0) += n;
    }
    pub fn eval(&mut self) {
        self.evaluations += 1;
    }
    /// record a distinct, non-trivial case (by hash of its input bit patterns)
    pub fn case(&mut self, h: u64) {
        self.hashes.insert(h);
    }
    /// keep up to `per_key` samples for each key
    pub fn sample(&mut self, key: &str, per_key: u32, f: impl FnOnce() -> Value) {
        let c = self.sample_keys.entry(key.to_string()).or_insert(0);
        if *c < per_key {
            *c += 1;
            let mut v = f();
            if let Value::Object(ref mut m) = v {
                m.insert("class".into(), Value::String(key.to_string()));
            }
            self.samples.push(v);
        }
    }
    pub fn ratio(&mut self, r: f64, at: impl FnOnce() -> Value) {
        if r.is_finite() && r > self.max_ratio {
            self.max_ratio = r;
            self.max_ratio_at = at();
        }
    }
    /// A violated observation. `sig` is the stable signature (operation + witness class).
    pub fn violation(&mut self, sig: &str, witness: impl FnOnce() -> Value) {
        if self.in_canary {
            self.canaries_flagged += 1;
            return;
        }
        self.n_violations += 1;
        let c = self.viol_sigs.entry(sig.to_string()).or_insert(0);
        *c += 1;
        if *c <= 3 && self.violations.len() < 60 {
            let mut w = witness();
            if let Value::Object(ref mut m) = w {
                m.insert("sig".into(), Value::String(sig.to_string()));
                m.insert("property".into(), Value::String(self.prop.clone()));
            }
            self.violations.push(w);
        }
    }
    pub fn panic(&mut self, sig: &str, msg: &str, witness: impl FnOnce() -> Value) {
        if !self.in_canary {
            self.panics += 1;
        }
        let m = msg.to_string();
        self.violation(sig, || {
            let mut w = witness();
            if let Value::Object(ref mut mm) = w {
                mm.insert("panic".into(), Value::String(m));
            }
            w
        });
    }
    /// feed a deliberately corrupted observation through the same checker; it must be flagged
    pub fn canary(&mut self, f: impl FnOnce(&mut Mon)) {
        let before = self.canaries_flagged;
        self.in_canary = true;
        self.canaries_fed += 1;
        f(self);
        self.in_canary = false;
        // count at most one flag per canary
        if self.canaries_flagged > before {
            self.canaries_flagged = before + 1;
        }
    }
    pub fn finish(self, out: &str, hashes_path: &str, wall_s: f64) {
        let mut m = Map::new();
        m.insert("property".into(), json!(self.prop));
        m.insert("evaluations".into(), json!(self.evaluations));
        m.insert("distinct".into(), json!(self.hashes.len()));
        m.insert("counters".into(), json!(self.counters));
        m.insert("samples".into(), Value::Array(self.samples));
        m.insert("violations".into(), Value::Array(self.violations));
        m.insert("n_violations".into(), json!(self.n_violations));
        m.insert("violation_sigs".into(), json!(self.viol_sigs));
        m.insert("max_ratio".into(), json!(self.max_ratio));
        m.insert("max_ratio_at".into(), self.max_ratio_at);
        m.insert("canaries_fed".into(), json!(self.canaries_fed));
        m.insert("canaries_flagged".into(), json!(self.canaries_flagged));
        m.insert("panics".into(), json!(self.panics));
        m.insert("notes".into(), json!(self.notes));
        m.insert("floors".into(), json!(self.floors));
        m.insert("extra".into(), Value::Object(self.extra));
        m.insert("wall_s".into(), json!(wall_s));
        let s = serde_json::to_string(&Value::Object(m)).unwrap();
        if out == "-" {
            println!("{}", s);
        } else {
            std::fs::write(out, s).expect("write summary");
        }
        if !hashes_path.is_empty() {
            let mut f = std::io::BufWriter::new(std::fs::File::create(hashes_path).expect("hashes"));
            for h in self.hashes {
                f.write_all(&h.to_le_bytes()).unwrap();
            }
        }
    }
}

pub struct Args {
    pub prop: String,
    pub tier: String,
    pub seed: u64,
    pub shard: u64,
    pub nshards: u64,
    pub out: String,
    pub hashes: String,
    pub scale: f64,
    pub replay: String,
}

impl Args {
    pub fn parse() -> Args {
        let mut a = Args {
            prop: String::new(),
            tier: "quick".into(),
            seed: 1,
            shard: 0,
            nshards: 1,
            out: "-".into(),
            hashes: String::new(),
            scale: 1.0,
            replay: String::new(),
        };
        let v: Vec<String> = std::env::args().collect();
        let mut i = 1;
        while i < v.len() {
            let k = v[i].as_str();
            let mut val = || {
                i += 1;
                v[i].clone()
            };
            match k {
                "--tier" => a.tier = val(),
                "--seed" => a.seed = val().parse().unwrap(),
                "--shard" => a.shard = val().parse().unwrap(),
                "--nshards" => a.nshards = val().parse().unwrap(),
                "--out" => a.out = val(),
                "--hashes" => a.hashes = val(),
                "--scale" => a.scale = val().parse().unwrap(),
                "--replay" => a.replay = val(),
                _ => {
                    if a.prop.is_empty() {
                        a.prop = k.to_string()
                    } else {
                        panic!("unknown arg {}", k)
                    }
                }
            }
            i += 1;
        }
        a
    }
    pub fn thorough(&self) -> bool {
        self.tier == "thorough"
    }
    /// number of cases for this shard given per-tier totals
    pub fn n(&self, quick_total: u64, thorough_total: u64) -> u64 {
        let t = if self.thorough() { thorough_total } else { quick_total };
        (((t as f64) * self.scale) as u64 / self.nshards.max(1)).max(1)
    }
}

/// A panic that escapes a driver: if it was raised inside the library (location outside the harness sources) it is
/// an observation — a library call the driver made on input it considered well-formed panicked — and is reported as
/// such; if it was raised by harness code it is a harness bug and the process fails (=> inconclusive, never a verdict).
fn escaped_panic(m: &mut Mon, msg: String) {
    let in_harness = msg.contains("@ src/") || msg.contains("/verif/") || msg.contains("harness/src");
    if in_harness {
        // a bug of the harness itself (generator / bookkeeping), not an observation about the library: this shard stops
        // here and reports what it had observed so far; run.py refuses a verdict if too many shards end like this
        eprintln!("harness panic: {}", msg);
        m.notes.push(format!("shard aborted early by a harness panic: {}", msg));
        m.count("harness_panic_shard_aborted");
        return;
    }
    m.notes.push("driver aborted early by an unguarded library panic".to_string());
    let mm = msg.clone();
    m.panic("library panic in an unguarded call of the driver", &msg, || serde_json::json!({"message": mm}));
}

/// entry point of an online-monitor binary
pub fn main_online(run: fn(&Args, &mut Mon)) {
    let a = Args::parse();
    install_panic_hook();
    let t0 = std::time::Instant::now();
    let mut m = Mon::new(&a.prop);
    start_hang_watcher(a.out.clone(), a.prop.clone());
    if let Err(msg) = guard_inner(|| run(&a, &mut m)) {
        escaped_panic(&mut m, msg);
    }
    let wall = t0.elapsed().as_secs_f64();
    m.finish(&a.out, &a.hashes, wall);
}

/// entry point of an event-recording driver: events to stdout for the offline oracle, or (with
/// `--out <file>` different from "-") discarded, keeping only what the driver itself observed
/// (used by C16's panic sweep).
pub fn main_offline(drive: fn(&Args, &mut Mon, &mut crate::events::Sink)) {
    let a = Args::parse();
    install_panic_hook();
    let t0 = std::time::Instant::now();
    let mut m = Mon::new(&a.prop);
    start_hang_watcher(if a.out == "-" { a.hashes.clone() } else { a.out.clone() }, a.prop.clone());
    if a.out == "-" {
        let mut sink = crate::events::Sink::stdout();
        if let Err(msg) = guard_inner(|| drive(&a, &mut m, &mut sink)) {
            escaped_panic(&mut m, msg);
        }
        let wall = t0.elapsed().as_secs_f64();
        sink.finish(m, wall);
    } else {
        let mut sink = crate::events::Sink::null();
        if let Err(msg) = guard_inner(|| drive(&a, &mut m, &mut sink)) {
            escaped_panic(&mut m, msg);
        }
        m.evaluations = m.evaluations.max(sink.n);
        // canaries of the offline lane are judged by the oracle, not here
        m.canaries_fed = 0;
        m.canaries_flagged = 0;
        let wall = t0.elapsed().as_secs_f64();
        m.finish(&a.out, &a.hashes, wall);
    }
}
