//! Shared machinery of the runtime monitors (generators, probes, bookkeeping, event log).
#![allow(dead_code)]
pub mod conc;
pub mod events;
pub mod flat;
pub mod gen;
pub mod mon;
pub mod polygen;
pub mod probe;
