//! C01 — evaluation of Poly0..8, PolyN and Log<Poly0..8> (driver: records events; the exact /
//! 400-bit oracle is oracles/c01.py).

use crate::events::*;
use crate::flat::*;
use crate::gen::*;
use crate::mon::*;
use piecewise_polynomial::*;
use serde_json::json;

pub fn coeff_vec(r: &mut Rng, len: usize, x: f64) -> (Vec<f64>, &'static str) {
    match r.below(10) {
        0 => {
            let k = r.usize(0, len - 1);
            let c = if r.chance(0.5) { r.small_int(9).max(1.0) } else { r.mixed(6.0) };
            ((0..len).map(|i| if i == k { c } else { 0.0 }).collect(), "one_hot")
        }
        1 => ((0..len).map(|_| r.small_int(9)).collect(), "small_int"),
        2 => ((0..len).map(|_| r.dyadic()).collect(), "dyadic"),
        3 => ((0..len).map(|i| (i + 1) as f64).collect(), "suite_shape"),
        4 => {
            let s = r.pick(&[1.0, -1.0]);
            ((0..len).map(|_| s * r.uniform(0.1, 10.0)).collect(), "same_sign")
        }
        5 => ((0..len).map(|i| if i % 2 == 0 { 1.0 } else { -1.0 } * r.uniform(0.1, 10.0)).collect(), "alternating")
        ,
        6 => {
            // cancelling: (t - x0) * q(t) with x0 next to the query point
            if len < 2 {
                return (vec![r.mixed(3.0)], "cancelling");
            }
            let q: Vec<f64> = (0..len - 1).map(|_| r.uniform(-2.0, 2.0)).collect();
            let x0 = if x.is_finite() && x.abs() < 1e3 { x * (1.0 + r.uniform(-1e-9, 1e-9)) } else { 1.0 };
            let mut c = vec![0.0; len];
            for (i, qi) in q.iter().enumerate() {
                c[i + 1] += qi;
                c[i] -= qi * x0;
            }
            (c, "cancelling")
        }
        7 => ((0..len).map(|_| r.logu(30.0)).collect(), "wide_magnitudes"),
        _ => ((0..len).map(|_| r.mixed(3.0)).collect(), "mixed"),
    }
}

pub fn arg_poly(r: &mut Rng) -> (f64, &'static str) {
    match r.below(14) {
        0 => (0.0, "zero"),
        1 => (1.0, "one"),
        2 => (-1.0, "minus_one"),
        3 => (r.pick(&[3.0, 17.0]), "suite_point"),
        4 => (r.small_int(20), "small_int"),
        5 => (r.dyadic(), "dyadic"),
        6 => (-r.uniform(0.0, 10.0), "negative"),
        7 => (r.uniform(-1.0, 1.0), "fractional"),
        8 => (r.logu(1.0) * 1e4, "large"),
        9 => (r.logu(1.0) * 1e-4, "small"),
        10 => (r.logu(12.0), "log_uniform"),
        11 => (2f64.powi(r.int(-20, 20) as i32) * r.sign(), "power_of_two"),
        12 => (-0.0, "neg_zero"),
        _ => (r.mixed(3.0), "mixed"),
    }
}

pub fn arg_log(r: &mut Rng) -> (f64, &'static str) {
    match r.below(10) {
        0 => (1.0, "v_one"),
        1 => (ulps(1.0, r.int(-50, 50)), "v_ulps_of_one"),
        2 => (7.0, "suite_point"),
        3 => (r.uniform(0.0, 1.0).max(1e-300), "v_in_0_1"),
        4 => (r.logu_pos(1.0) * 1e6, "v_huge"),
        5 => (r.logu_pos(1.0) * 1e-6, "v_tiny"),
        6 => (r.logu_pos(300.0), "v_any_magnitude"),
        7 => (r.uniform(0.8, 1.2), "v_benchmark_range"),
        8 => (std::f64::consts::E * (1.0 + r.uniform(-1e-12, 1e-12)), "v_near_e"),
        _ => (r.uniform(0.0, 100.0).max(1e-300), "v_moderate"),
    }
}

fn one<T: Nums + Evaluate>(m: &mut Mon, sink: &mut Sink, r: &mut Rng, log: bool) {
    let (x, xc) = if log { arg_log(r) } else { arg_poly(r) };
    let (c, cc) = coeff_vec(r, T::LEN, if log { x.ln() } else { x });
    let p = T::from_nums(&c);
    m.eval();
    m.count(&format!("form:{}", T::NAME));
    m.count(&format!("coeffs:{}", cc));
    m.count(&format!("arg:{}", xc));
    let hh = hash_bits(1, c.iter().map(|e| e.to_bits()).chain([x.to_bits(), T::LEN as u64, log as u64]));
    match guard(|| p.evaluate(x)) {
        Err(pn) => m.panic("evaluate panic", &pn, || json!({"form": T::NAME, "c": hxs(&c), "x": hx(x)})),
        Ok(v) => sink.emit(json!({"t": "ev", "form": T::NAME, "log": log, "c": hs(&c), "x": h(x), "r": h(v), "h": hh, "cc": cc, "xc": xc})),
    }
}

fn polyn(m: &mut Mon, sink: &mut Sink, r: &mut Rng) {
    let len = match r.below(8) {
        0 => 0,
        1 => 1,
        _ => r.usize(2, 12),
    };
    let (x, xc) = arg_poly(r);
    let (c, cc) = if len == 0 { (vec![], "empty") } else { coeff_vec(r, len, x) };
    m.eval();
    m.count("form:PolyN");
    m.count(&format!("polyn_len:{}", len));
    m.count(&format!("coeffs:{}", cc));
    let p = PolyN(c.clone());
    let hh = hash_bits(10, c.iter().map(|e| e.to_bits()).chain([x.to_bits(), len as u64]));
    match guard(|| p.evaluate(x)) {
        Err(pn) => m.panic("PolyN evaluate panic", &pn, || json!({"c": hxs(&c), "x": hx(x)})),
        Ok(v) => sink.emit(json!({"t": "ev", "form": "PolyN", "log": false, "c": hs(&c), "x": h(x), "r": h(v), "h": hh, "cc": cc, "xc": xc})),
    }
}

fn canaries(sink: &mut Sink) {
    // corrupted observations made by the adapter, not by the library; the oracle must flag all of them
    let c = [1.0, 2.0, 3.0, 4.0];
    let x = 1.5;
    let truth = 1.0 + 2.0 * 1.5 + 3.0 * 2.25 + 4.0 * 3.375;
    sink.emit(json!({"t": "ev", "canary": true, "form": "Poly3", "log": false, "c": hs(&c), "x": h(x), "r": h(truth + 1.0), "h": 0, "cc": "canary", "xc": "canary"}));
    sink.emit(json!({"t": "ev", "canary": true, "form": "Poly3", "log": false, "c": hs(&c), "x": h(x), "r": h(f64::from_bits(truth.to_bits() + 1)), "h": 0, "cc": "canary", "xc": "canary"}));
    // inexact case: value off by 100 x the bound
    let c2 = [0.1, 0.7, -0.3];
    let x2 = 0.37;
    let t2 = 0.1 + 0.7 * 0.37 - 0.3 * 0.37 * 0.37;
    sink.emit(json!({"t": "ev", "canary": true, "form": "Poly2", "log": false, "c": hs(&c2), "x": h(x2), "r": h(t2 * (1.0 + 1e-13)), "h": 0, "cc": "canary", "xc": "canary"}));
    let l = (7.0f64).ln();
    sink.emit(json!({"t": "ev", "canary": true, "form": "Log<Poly1>", "log": true, "c": hs(&[1.0, 2.0]), "x": h(7.0), "r": h((1.0 + 2.0 * l) * (1.0 + 1e-12)), "h": 0, "cc": "canary", "xc": "canary"}));
    sink.emit(json!({"t": "ev", "canary": true, "form": "PolyN", "log": false, "c": hs(&[]), "x": h(2.0), "r": h(1e-300), "h": 0, "cc": "canary", "xc": "canary"}));
}

pub const FLOORS: &[&str] = &[
    "exact_class", "bounded_class", "form:PolyN", "polyn_len:0", "form:Poly0", "form:Poly8", "form:Log<Poly0>", "form:Log<Poly8>",
    "coeffs:one_hot", "coeffs:cancelling", "coeffs:alternating", "arg:negative", "arg:fractional", "arg:large", "arg:small", "arg:zero",
    "arg:v_ulps_of_one", "arg:v_in_0_1", "arg:v_huge", "arg:v_tiny",
];

pub fn drive(a: &Args, m: &mut Mon, sink: &mut Sink) {
    m.floors(FLOORS);
    canaries(sink);
    m.canaries_fed += 5;
    let mut r = Rng::lane(a.seed, "C01", a.shard, 0);
    let n = a.n(16_000, 450_000);
    for _ in 0..n {
        macro_rules! per {
            ($t:ident) => {
                one::<$t>(m, sink, &mut r, false);
                one::<Log<$t>>(m, sink, &mut r, true);
            };
        }
        crate::for_polys!(per);
        polyn(m, sink, &mut r);
    }
}
