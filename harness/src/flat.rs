//! Flatten library values to their f64 contents (all fields are public) and rebuild them.

use piecewise_polynomial::*;

pub trait Nums: Sized + Clone {
    const NAME: &'static str;
    const LEN: usize;
    fn nums(&self) -> Vec<f64>;
    fn from_nums(v: &[f64]) -> Self;
}

impl Nums for Poly0 {
    const NAME: &'static str = "Poly0";
    const LEN: usize = 1;
    fn nums(&self) -> Vec<f64> {
        vec![self.0]
    }
    fn from_nums(v: &[f64]) -> Self {
        Poly0(v[0])
    }
}

macro_rules! nums_poly {
    ($t:ident, $n:expr) => {
        impl Nums for $t {
            const NAME: &'static str = stringify!($t);
            const LEN: usize = $n;
            fn nums(&self) -> Vec<f64> {
                self.0.to_vec()
            }
            fn from_nums(v: &[f64]) -> Self {
                let mut a = [0.0f64; $n];
                a.copy_from_slice(&v[..$n]);
                $t(a)
            }
        }
    };
}
nums_poly!(Poly1, 2);
nums_poly!(Poly2, 3);
nums_poly!(Poly3, 4);
nums_poly!(Poly4, 5);
nums_poly!(Poly5, 6);
nums_poly!(Poly6, 7);
nums_poly!(Poly7, 8);
nums_poly!(Poly8, 9);

macro_rules! nums_wrapped {
    ($($t:ident => $ln:expr, $in:expr);* $(;)?) => {$(
        impl Nums for Log<$t> {
            const NAME: &'static str = $ln;
            const LEN: usize = <$t as Nums>::LEN;
            fn nums(&self) -> Vec<f64> { self.0.nums() }
            fn from_nums(v: &[f64]) -> Self { Log(<$t>::from_nums(v)) }
        }
        impl Nums for IntOfLog<$t> {
            const NAME: &'static str = $in;
            const LEN: usize = 1 + <$t as Nums>::LEN;
            fn nums(&self) -> Vec<f64> {
                let mut v = vec![self.k];
                v.extend(self.poly.nums());
                v
            }
            fn from_nums(v: &[f64]) -> Self {
                IntOfLog { k: v[0], poly: <$t>::from_nums(&v[1..]) }
            }
        }
    )*};
}
nums_wrapped!(
    Poly0 => "Log<Poly0>", "IntOfLog<Poly0>";
    Poly1 => "Log<Poly1>", "IntOfLog<Poly1>";
    Poly2 => "Log<Poly2>", "IntOfLog<Poly2>";
    Poly3 => "Log<Poly3>", "IntOfLog<Poly3>";
    Poly4 => "Log<Poly4>", "IntOfLog<Poly4>";
    Poly5 => "Log<Poly5>", "IntOfLog<Poly5>";
    Poly6 => "Log<Poly6>", "IntOfLog<Poly6>";
    Poly7 => "Log<Poly7>", "IntOfLog<Poly7>";
    Poly8 => "Log<Poly8>", "IntOfLog<Poly8>";
);

impl Nums for IntOfLogPoly4 {
    const NAME: &'static str = "IntOfLogPoly4";
    const LEN: usize = 6;
    fn nums(&self) -> Vec<f64> {
        vec![
            self.k,
            self.coeffs[0],
            self.coeffs[1],
            self.coeffs[2],
            self.coeffs[3],
            self.u,
        ]
    }
    fn from_nums(v: &[f64]) -> Self {
        IntOfLogPoly4 {
            k: v[0],
            coeffs: [v[1], v[2], v[3], v[4]],
            u: v[5],
        }
    }
}

impl Nums for Knot {
    const NAME: &'static str = "Knot";
    const LEN: usize = 2;
    fn nums(&self) -> Vec<f64> {
        vec![self.x, self.y]
    }
    fn from_nums(v: &[f64]) -> Self {
        Knot { x: v[0], y: v[1] }
    }
}

impl<T: Nums> Nums for Segment<T> {
    const NAME: &'static str = "Segment";
    const LEN: usize = 1 + T::LEN;
    fn nums(&self) -> Vec<f64> {
        let mut v = vec![self.end];
        v.extend(self.poly.nums());
        v
    }
    fn from_nums(v: &[f64]) -> Self {
        Segment {
            end: v[0],
            poly: T::from_nums(&v[1..]),
        }
    }
}

pub fn pw_nums<T: Nums>(p: &Piecewise<T>) -> Vec<f64> {
    let mut v = Vec::with_capacity(p.segments.len() * (1 + T::LEN));
    for s in &p.segments {
        v.extend(s.nums());
    }
    v
}
/// One function in four (decided by its own content, no generator state) is built in a vector with several times
/// more capacity than pieces, as one grown by pushes or cut down with truncate() has.
pub fn with_spare_capacity<S>(segments: Vec<S>, key: u64) -> Vec<S> {
    if key % 4 != 0 {
        return segments;
    }
    let mut v = Vec::with_capacity(segments.len() * 5 + 64);
    v.extend(segments);
    v
}

/// copy of a function for an operator that consumes or mutates it; one in four lives in a vector with spare capacity
/// (a plain clone() always has capacity == length)
pub fn dup<T: Clone>(pw: &Piecewise<T>) -> Piecewise<T> {
    let key = pw.segments.iter().fold(pw.segments.len() as u64, |a, s| a.wrapping_mul(31).wrapping_add(s.end.to_bits() >> 7));
    Piecewise { segments: with_spare_capacity(pw.segments.clone(), key) }
}

pub fn pw_from<T: Nums>(ends: &[f64], coeffs: &[Vec<f64>]) -> Piecewise<T> {
    let key = ends.iter().fold(ends.len() as u64, |a, e| a.wrapping_mul(31).wrapping_add(e.to_bits() >> 7));
    Piecewise {
        segments: with_spare_capacity(
            ends.iter()
                .zip(coeffs.iter())
                .map(|(e, c)| Segment {
                    end: *e,
                    poly: T::from_nums(c),
                })
                .collect(),
            key,
        ),
    }
}
/// With probability 1/4 make one or two runs of neighbouring pieces identical (same coefficients): a function whose
/// neighbouring pieces happen to be equal (collinear knots, plateaux, redundant breakpoints) is a realistic input, and
/// anything that "coalesces" equal neighbours only shows there.
pub fn repeat_some_pieces(r: &mut crate::gen::Rng, coeffs: &mut [Vec<f64>]) {
    if coeffs.len() < 2 || !r.chance(0.25) {
        return;
    }
    for _ in 0..r.usize(1, 2) {
        let i = r.usize(1, coeffs.len() - 1);
        let run = r.usize(1, 3).min(coeffs.len() - i);
        for j in i..i + run {
            coeffs[j] = coeffs[i - 1].clone();
        }
    }
}

pub fn pw_ends<T>(p: &Piecewise<T>) -> Vec<f64> {
    p.segments.iter().map(|s| s.end).collect()
}

pub fn bits_eq(a: f64, b: f64) -> bool {
    a.to_bits() == b.to_bits() || (a.is_nan() && b.is_nan())
}
pub fn all_bits_eq(a: &[f64], b: &[f64]) -> bool {
    a.len() == b.len() && a.iter().zip(b).all(|(x, y)| bits_eq(*x, *y))
}

/// Apply a macro to every fixed-degree polynomial type.
#[macro_export]
macro_rules! for_polys {
    ($m:ident $(, $a:tt)*) => {
        $m!(Poly0 $(, $a)*); $m!(Poly1 $(, $a)*); $m!(Poly2 $(, $a)*);
        $m!(Poly3 $(, $a)*); $m!(Poly4 $(, $a)*); $m!(Poly5 $(, $a)*);
        $m!(Poly6 $(, $a)*); $m!(Poly7 $(, $a)*); $m!(Poly8 $(, $a)*);
    };
}
#[macro_export]
macro_rules! for_polys_to7 {
    ($m:ident $(, $a:tt)*) => {
        $m!(Poly0 $(, $a)*); $m!(Poly1 $(, $a)*); $m!(Poly2 $(, $a)*);
        $m!(Poly3 $(, $a)*); $m!(Poly4 $(, $a)*); $m!(Poly5 $(, $a)*);
        $m!(Poly6 $(, $a)*); $m!(Poly7 $(, $a)*);
    };
}
