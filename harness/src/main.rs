mod flat;
mod gen;
mod mon;
mod probe;

mod c02;

use mon::*;

fn main() {
    let a = Args::parse();
    install_panic_hook();
    let t0 = std::time::Instant::now();
    let mut m = Mon::new(&a.prop);
    match a.prop.as_str() {
        "C02" => c02::run(&a, &mut m),
        p => {
            eprintln!("unknown property {}", p);
            std::process::exit(3);
        }
    }
    let wall = t0.elapsed().as_secs_f64();
    m.finish(&a.out, &a.hashes, wall);
}
