#![allow(dead_code)]
mod events;
mod flat;
mod gen;
mod mon;
mod probe;

mod c01;
mod c02;
mod c04;
mod c07;
mod c09;
mod c11;
mod c03;
mod c12;
mod c13;
mod c14;
mod c15;
mod c16;
mod c17;
mod c18;
mod c19;
mod sweep;

use mon::*;

fn main() {
    let a = Args::parse();
    install_panic_hook();
    let t0 = std::time::Instant::now();
    let mut m = Mon::new(&a.prop);
    let offline: Option<fn(&Args, &mut Mon, &mut events::Sink)> = match a.prop.as_str() {
        "C01" => Some(c01::drive),
        "C04" => Some(c04::drive_spline),
        "C05" => Some(c04::drive_spline),
        "C06" => Some(c04::drive_linear),
        "C07" => Some(c07::drive07),
        "C08" => Some(c07::drive08),
        "C09" => Some(c09::drive09),
        "C10" => Some(c09::drive10),
        "C11" => Some(c11::drive),
        _ => None,
    };
    if let Some(f) = offline {
        let mut sink = events::Sink::stdout();
        f(&a, &mut m, &mut sink);
        let wall = t0.elapsed().as_secs_f64();
        sink.finish(m, wall);
        return;
    }
    match a.prop.as_str() {
        "C02" => c02::run(&a, &mut m),
        "C03" => c03::run(&a, &mut m),
        "C12" => c12::run(&a, &mut m),
        "C13" => c13::run(&a, &mut m),
        "C14" => c14::run(&a, &mut m),
        "C15" => c15::run(&a, &mut m),
        "C16" => c16::run(&a, &mut m),
        "C17" => c17::run(&a, &mut m),
        "C18" => c18::run(&a, &mut m),
        "C19" => c19::run(&a, &mut m),
        p => {
            eprintln!("unknown property {}", p);
            std::process::exit(3);
        }
    }
    let wall = t0.elapsed().as_secs_f64();
    m.finish(&a.out, &a.hashes, wall);
}
