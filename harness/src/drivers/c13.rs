//! C13 — &f + &g and &f - &g are pointwise on the merged breakpoints.
//! Online monitor with symbolic pair pieces (which left piece met which right piece) and with the
//! real piece type IntOfLogPoly4.

use ppv::flat::*;
use ppv::gen::*;
use ppv::mon::*;
use ppv::probe::*;
use piecewise_polynomial::*;
use serde_json::json;

fn gen_second(r: &mut Rng, f: &[f64]) -> (Vec<f64>, &'static str) {
    let lo = f[0];
    let hi = *f.last().unwrap();
    match r.below(9) {
        0 => (f.to_vec(), "identical"),
        1 => {
            let mut g: Vec<f64> = f.iter().cloned().filter(|_| r.chance(0.5)).collect();
            if g.is_empty() {
                g.push(f[r.usize(0, f.len() - 1)]);
            }
            (g, "subset")
        }
        2 => {
            let mut g = Vec::new();
            for &e in f {
                match r.below(4) {
                    0 => g.push(e),
                    1 => g.push(e.next_up()),
                    2 => g.push(e.next_down()),
                    _ => {
                        g.push(e);
                        g.push(e);
                    }
                }
            }
            g.retain(|x| !x.is_nan());
            g.sort_by(|a, b| a.partial_cmp(b).unwrap());
            (g, "neighbours_and_duplicates")
        }
        3 => {
            let n = r.usize(1, 6);
            let base = if hi.is_finite() { hi } else { 0.0 };
            let mut x = base + r.uniform(0.0, 2.0);
            let mut g = Vec::new();
            for _ in 0..n {
                g.push(x);
                x += r.uniform(0.0, 1.0);
            }
            (g, "disjoint_above")
        }
        4 => {
            let n = r.usize(1, 6);
            let base = if lo.is_finite() { lo } else { 0.0 };
            let mut x = base - r.uniform(0.0, 2.0) - n as f64;
            let mut g = Vec::new();
            for _ in 0..n {
                g.push(x);
                x += r.uniform(0.0, 1.0);
            }
            (g, "disjoint_below")
        }
        5 => (vec![r.pick(&[lo, hi, lo * 0.5 + hi * 0.5, lo - 1.0, hi + 1.0]).max(f64::MIN)], "single_piece"),
        6 => {
            // nested inside one segment of f
            let i = r.usize(0, f.len() - 1);
            let a = if i == 0 { f[0] - 1.0 } else { f[i - 1] };
            let b = f[i];
            let n = r.usize(1, 5);
            let mut g: Vec<f64> = (0..n).map(|_| a + (b - a) * r.unit()).filter(|x| x.is_finite()).collect();
            if g.is_empty() {
                g.push(0.0);
            }
            g.sort_by(|a, b| a.partial_cmp(b).unwrap());
            (g, "nested")
        }
        7 => {
            let n = r.usize(1, 40);
            (gen_ends_any(r, n).0, "independent")
        }
        _ => {
            // interleaved: mix of f's ends and fresh points in the same range
            let n = r.usize(1, 2 * f.len() + 1);
            let mut g: Vec<f64> = (0..n)
                .map(|_| {
                    if r.chance(0.4) {
                        f[r.usize(0, f.len() - 1)]
                    } else {
                        let a = lo.max(-1e300);
                        let b = hi.min(1e300);
                        a + (b - a) * r.unit()
                    }
                })
                .filter(|x| !x.is_nan())
                .collect();
            if g.is_empty() {
                g.push(lo);
            }
            g.sort_by(|a, b| a.partial_cmp(b).unwrap());
            (g, "interleaved")
        }
    }
}

fn union_queries(f: &[f64], g: &[f64]) -> Vec<f64> {
    let mut q = critical_queries(f);
    q.extend(critical_queries(g));
    let mut seen = std::collections::HashSet::new();
    q.retain(|x| seen.insert(x.to_bits()));
    q
}

/// structural part shared by the symbolic and the real lane
fn check_ends(m: &mut Mon, opname: &str, f: &[f64], g: &[f64], res: &[f64]) -> bool {
    if res.is_empty() {
        m.violation(&format!("{} result empty", opname), || json!({"f": hxs(f), "g": hxs(g)}));
        return false;
    }
    if res.len() > f.len() + g.len() - 1 {
        m.violation(&format!("{} more than len(f)+len(g)-1 pieces", opname), || json!({"f": hxs(f), "g": hxs(g), "result_ends": hxs(res)}));
    }
    for w in res.windows(2) {
        if !(w[0] <= w[1]) {
            m.violation(&format!("{} result ends decrease", opname), || json!({"f": hxs(f), "g": hxs(g), "result_ends": hxs(res)}));
            return false;
        }
    }
    for e in res {
        if !f.iter().chain(g.iter()).any(|x| x.to_bits() == e.to_bits()) {
            m.violation(&format!("{} result end not drawn from the operands", opname), || json!({"f": hxs(f), "g": hxs(g), "result_ends": hxs(res), "end": hx(*e)}));
            return false;
        }
    }
    true
}

pub fn check_pairs(m: &mut Mon, op: u8, f: &[f64], g: &[f64], res: &Piecewise<Pair>, trace: bool) {
    let opname = if op == b'+' { "add" } else { "sub" };
    let rends: Vec<f64> = res.segments.iter().map(|s| s.end).collect();
    if !check_ends(m, opname, f, g, &rends) {
        return;
    }
    for s in &res.segments {
        if s.poly.op != op || s.poly.l < 0 || s.poly.r < 0 {
            m.violation(&format!("{} piece not produced by the operator from a left and a right piece", opname), || {
                json!({"f": hxs(f), "g": hxs(g), "piece": format!("{:?}", s.poly)})
            });
            return;
        }
    }
    if trace {
        // which cursor advanced between consecutive result pieces (evidence of the merge branches)
        let lf = f.len() as i32 - 1;
        let lg = g.len() as i32 - 1;
        for w in res.segments.windows(2) {
            let (a, b) = (w[0].poly, w[1].poly);
            let k = match (b.l > a.l, b.r > a.r) {
                (true, true) => "both_advance",
                (true, false) => {
                    if a.r == lg {
                        "left_advances_right_exhausted"
                    } else {
                        "left_advances"
                    }
                }
                (false, true) => {
                    if a.l == lf {
                        "right_advances_left_exhausted"
                    } else {
                        "right_advances"
                    }
                }
                (false, false) => "neither_advances",
            };
            m.count(&format!("{}:{}", opname, k));
        }
    }
    for x in union_queries(f, g) {
        m.eval();
        let piece = res.segments[sel(&rends, x)].poly;
        let (ef, eg) = (sel(f, x) as i32, sel(g, x) as i32);
        if piece.l != ef || piece.r != eg {
            m.violation(&format!("{} combines pieces that direct evaluation does not select", opname), || {
                json!({"f": hxs(f), "f_v": f, "g": hxs(g), "g_v": g, "result_ends": hxs(&rends), "x": hx(x), "x_v": format!("{:e}", x),
                       "expected": [ef, eg], "observed": [piece.l, piece.r]})
            });
            return;
        }
    }
}

fn symbolic(m: &mut Mon, f: &[f64], g: &[f64], class: &str) {
    let pf = pair_pw(f, true);
    let pg = pair_pw(g, false);
    m.case(hash_bits(13, f.iter().map(|e| e.to_bits()).chain([u64::MAX]).chain(g.iter().map(|e| e.to_bits()))));
    m.count(&format!("pairs:{}", class));
    for op in [b'+', b'-'] {
        pair_budget((f.len() + g.len() + 4) as i64);
        let res = guard(|| if op == b'+' { &pf + &pg } else { &pf - &pg });
        pair_budget(i64::MAX);
        match res {
            Err(p) => {
                let sig = if p.contains("VERIF logical bound") {
                    format!("{} does not terminate within len(f)+len(g)+4 combinations", if op == b'+' { "add" } else { "sub" })
                } else {
                    format!("{} panic", if op == b'+' { "add" } else { "sub" })
                };
                m.panic(&sig, &p, || json!({"f": hxs(f), "g": hxs(g)}))
            }
            Ok(res) => check_pairs(m, op, f, g, &res, true),
        }
    }
    m.sample(&format!("symbolic:{}", class), 1, || json!({"f_ends": f.iter().take(10).collect::<Vec<_>>(), "g_ends": g.iter().take(10).collect::<Vec<_>>()}));
}

/// Two consecutive calls whose concatenated breakpoint lists are identical but split differently between the
/// operands (f = h[..s1], g = h[s1..], then f = h[..s2], g = h[s2..]).
fn resplit(m: &mut Mon, r: &mut Rng) {
    let n = r.usize(3, 12);
    let h = gen_ends_any(r, n).0;
    let s1 = r.usize(1, n - 1);
    let mut s2 = r.usize(1, n - 1);
    if s2 == s1 {
        s2 = if s1 == 1 { 2 } else { s1 - 1 };
    }
    m.count("consecutive_calls_same_concatenation_other_split");
    symbolic(m, &h[..s1], &h[s1..], "resplit");
    symbolic(m, &h[..s2], &h[s2..], "resplit");
}

/// Operands whose pieces are themselves piecewise functions (`&Piecewise<T> + &Piecewise<T>` is the piece-level
/// operator of `Piecewise<Piecewise<T>>`, so the merge re-enters itself).
fn nested(m: &mut Mon, r: &mut Rng) {
    let nf = r.usize(1, 5);
    let fo = gen_ends_any(r, nf).0;
    let go = gen_second(r, &fo).0;
    let mk = |r: &mut Rng, outer: &[f64], left: bool| -> (Piecewise<Piecewise<Pair>>, Vec<Vec<f64>>) {
        let inner: Vec<Vec<f64>> = outer.iter().map(|_| { let k = r.usize(1, 3); gen_ends_any(r, k).0 }).collect();
        let pw = Piecewise {
            segments: outer.iter().enumerate().map(|(i, e)| Segment {
                end: *e,
                poly: Piecewise { segments: inner[i].iter().enumerate().map(|(j, ie)| {
                    let id = (i * 100 + j) as i32;
                    Segment { end: *ie, poly: if left { Pair { l: id, r: -1, op: 0 } } else { Pair { l: -1, r: id, op: 0 } } }
                }).collect() },
            }).collect(),
        };
        (pw, inner)
    };
    let (pf, fi) = mk(r, &fo, true);
    let (pg, gi) = mk(r, &go, false);
    m.count("pairs_nested");
    m.case(hash_bits(131, fo.iter().chain(go.iter()).chain(fi.iter().flatten()).chain(gi.iter().flatten()).map(|e| e.to_bits())));
    for op in [b'+', b'-'] {
        let opname = if op == b'+' { "add" } else { "sub" };
        pair_budget(i64::MAX);
        let res = match guard(|| if op == b'+' { &pf + &pg } else { &pf - &pg }) {
            Err(p) => {
                m.panic(&format!("{} panic (pieces that are piecewise functions)", opname), &p, || json!({"f": hxs(&fo), "g": hxs(&go)}));
                continue;
            }
            Ok(res) => res,
        };
        let rends: Vec<f64> = res.segments.iter().map(|s| s.end).collect();
        if !check_ends(m, opname, &fo, &go, &rends) {
            continue;
        }
        let mut qs = union_queries(&fo, &go);
        qs.extend(fi.iter().flatten().chain(gi.iter().flatten()).copied().filter(|x| !x.is_nan()));
        for x in qs {
            m.eval();
            let (of, og) = (sel(&fo, x), sel(&go, x));
            let want = ((of * 100 + sel(&fi[of], x)) as i32, (og * 100 + sel(&gi[og], x)) as i32);
            let ip = &res.segments[sel(&rends, x)].poly;
            let iends: Vec<f64> = ip.segments.iter().map(|s| s.end).collect();
            if iends.is_empty() {
                m.violation(&format!("{} result empty (pieces that are piecewise functions)", opname), || json!({"f": hxs(&fo), "g": hxs(&go)}));
                break;
            }
            let piece = ip.segments[sel(&iends, x)].poly;
            if (piece.l, piece.r) != want || piece.op != op {
                m.violation(&format!("{} combines pieces that direct evaluation does not select (pieces that are piecewise functions)", opname), || {
                    json!({"f": hxs(&fo), "g": hxs(&go), "x": hx(x), "expected": [want.0, want.1], "observed": [piece.l, piece.r]})
                });
                break;
            }
        }
    }
}

fn gen_quartic(r: &mut Rng) -> IntOfLogPoly4 {
    let mut v = [0.0; 6];
    for x in v.iter_mut() {
        *x = match r.below(4) {
            0 => r.small_int(9),
            1 => r.logu(7.0),
            _ => r.uniform(-130.0, 130.0),
        };
    }
    IntOfLogPoly4::from_nums(&v)
}

fn real(m: &mut Mon, r: &mut Rng, f: &[f64], g: &[f64]) {
    let pf = Piecewise { segments: f.iter().map(|e| Segment { end: *e, poly: gen_quartic(r) }).collect::<Vec<_>>() };
    // right-hand pieces are partly correlated with left-hand pieces (identical, same coefficient block with
    // different k / u, one field different): fast paths in the piece-level operator only show on such pairs
    let pg = Piecewise {
        segments: g
            .iter()
            .map(|e| {
                let fresh = gen_quartic(r);
                let poly = if r.chance(0.4) {
                    let a = pf.segments[r.usize(0, pf.segments.len() - 1)].poly;
                    match r.below(4) {
                        0 => a,
                        1 => IntOfLogPoly4 { k: fresh.k, coeffs: a.coeffs, u: fresh.u },
                        2 => IntOfLogPoly4 { k: a.k, coeffs: fresh.coeffs, u: a.u },
                        _ => IntOfLogPoly4 { k: a.k, coeffs: a.coeffs, u: fresh.u },
                    }
                } else {
                    fresh
                };
                Segment { end: *e, poly }
            })
            .collect::<Vec<_>>(),
    };
    m.case(hash_bits(14, pw_nums(&pf).iter().chain(pw_nums(&pg).iter()).map(|e| e.to_bits())));
    m.count("pairs_real:IntOfLogPoly4");
    for op in [b'+', b'-'] {
        let opname = if op == b'+' { "add" } else { "sub" };
        let res = match guard(|| if op == b'+' { &pf + &pg } else { &pf - &pg }) {
            Err(p) => {
                m.panic(&format!("{} panic (real pieces)", opname), &p, || json!({"f": hxs(f), "g": hxs(g)}));
                continue;
            }
            Ok(x) => x,
        };
        let rends = pw_ends(&res);
        if !check_ends(m, opname, f, g, &rends) {
            continue;
        }
        for x in union_queries(f, g) {
            m.eval();
            let got = res.segments[sel(&rends, x)].poly.nums();
            let a = pf.segments[sel(f, x)].poly.nums();
            let b = pg.segments[sel(g, x)].poly.nums();
            let exp: Vec<f64> = a.iter().zip(b.iter()).map(|(p, q)| if op == b'+' { p + q } else { p - q }).collect();
            if !all_bits_eq(&got, &exp) {
                m.violation(&format!("{} real piece numbers differ from f_sel op g_sel", opname), || {
                    json!({"f": hxs(f), "g": hxs(g), "x": hx(x), "left": hxs(&a), "right": hxs(&b), "observed": hxs(&got), "expected": hxs(&exp)})
                });
                break;
            }
            // value level: (f op g)(x) vs f(x) op g(x) for positive finite x, rounding of the coefficient-wise operation only
            if x > 0.0 && x.is_finite() {
                let vr = res.evaluate(x);
                let vf = pf.evaluate(x);
                let vg = pg.evaluate(x);
                let want = if op == b'+' { vf + vg } else { vf - vg };
                let lx = x.ln().abs().max(1.0);
                let mag: f64 = a.iter().chain(b.iter()).map(|c| c.abs()).sum::<f64>() * (1.0 + x) * lx.powi(5) * (1.0 + (lx).exp().min(1e300) * x.min(1.0));
                if vr.is_finite() && want.is_finite() && mag.is_finite() {
                    let tol = 1e-9 * mag;
                    m.count("value_level_checks");
                    if !((vr - want).abs() <= tol) {
                        m.violation(&format!("{} value differs from f(x) op g(x)", opname), || {
                            json!({"f": hxs(f), "g": hxs(g), "x": hx(x), "result_value": hx(vr), "f_value": hx(vf), "g_value": hx(vg), "tol": tol})
                        });
                        break;
                    }
                }
            }
        }
    }
}

pub fn canaries(m: &mut Mon) {
    let f = [1.0, 3.0];
    let g = [2.0, 4.0];
    // correct result is (0,0)@1 (1,0)@2 (1,1)@3|4 ; feed corrupted ones
    let mk = |v: Vec<(f64, i32, i32)>| Piecewise {
        segments: v.into_iter().map(|(e, l, r)| Segment { end: e, poly: Pair { l, r, op: b'+' } }).collect(),
    };
    m.canary(|m| check_pairs(m, b'+', &f, &g, &mk(vec![(1.0, 0, 0), (2.0, 0, 0), (4.0, 1, 1)]), false));
    m.canary(|m| check_pairs(m, b'+', &f, &g, &mk(vec![(1.0, 0, 0), (2.0, 1, 0)]), false)); // dropped last piece
    m.canary(|m| check_pairs(m, b'+', &f, &g, &mk(vec![(1.0, 0, 0), (2.5, 1, 0), (4.0, 1, 1)]), false)); // foreign end
    m.canary(|m| check_pairs(m, b'-', &f, &g, &mk(vec![(1.0, 0, 0), (2.0, 1, 0), (4.0, 1, 1)]), false)); // wrong operator
}

pub const FLOORS: &[&str] = &[
    "consecutive_calls_same_concatenation_other_split",
    "pairs_nested",
    "add:both_advance",
    "add:left_advances",
    "add:right_advances",
    "add:left_advances_right_exhausted",
    "add:right_advances_left_exhausted",
    "sub:both_advance",
    "sub:left_advances",
    "sub:right_advances",
    "sub:left_advances_right_exhausted",
    "sub:right_advances_left_exhausted",
    "pairs:identical",
    "pairs:single_piece",
    "pairs:nested",
    "pairs:interleaved",
    "pairs:neighbours_and_duplicates",
    "pairs_real:IntOfLogPoly4",
    "value_level_checks",
    "documented_rejection_nan_breakpoint_mid_merge",
];

pub fn run(a: &Args, m: &mut Mon) {
    m.floors(FLOORS);
    canaries(m);
    let mut r = Rng::lane(a.seed, "C13", a.shard, 0);
    if a.shard == 0 {
        // complete small scope: all pairs of non-decreasing end vectors (<=3 ends) over a 4-value alphabet
        let alpha = [0.0, 1.0, 1.0f64.next_up(), 2.0];
        let mut lists: Vec<Vec<f64>> = Vec::new();
        for i in 0..4 {
            lists.push(vec![alpha[i]]);
            for j in i..4 {
                lists.push(vec![alpha[i], alpha[j]]);
                for k in j..4 {
                    lists.push(vec![alpha[i], alpha[j], alpha[k]]);
                }
            }
        }
        for f in &lists {
            for g in &lists {
                symbolic(m, f, g, "small_scope");
            }
        }
    }
    let n = a.n(400_000, 20_000_000);
    for k in 0..n {
        let nf = match r.below(10) {
            0 => 1,
            1..=7 => r.usize(2, 8),
            _ => {
                if k % 64 == 9 {
                    m.count("very_long_functions");
                    r.usize(500, 3000)
                } else {
                    r.usize(9, 100)
                }
            }
        };
        if k % 97 == 13 {
            let mut bad: Vec<f64> = (0..r.usize(2, 9)).map(|i| i as f64).collect();
            let at = r.usize(1, bad.len() - 1);
            bad[at] = f64::NAN;
            let good: Vec<f64> = (0..r.usize(1, 9)).map(|i| i as f64 + 0.5).collect();
            let (pb, pg) = (pair_pw(&bad, true), pair_pw(&good, false));
            pair_budget(64);
            let r1 = guard(|| &pb - &pg).is_err();
            let r2 = guard(|| &pg + &pb).is_err();
            pair_budget(i64::MAX);
            m.count("documented_rejection_nan_breakpoint_mid_merge");
            if r1 || r2 {
                m.count("documented_rejection_panicked");
            }
            let z = IntOfLogPoly4::default();
            let rb = Piecewise { segments: bad.iter().map(|e| Segment { end: *e, poly: z }).collect::<Vec<_>>() };
            let rg = Piecewise { segments: good.iter().map(|e| Segment { end: *e, poly: z }).collect::<Vec<_>>() };
            let _ = guard(|| &rb - &rg);
            let _ = guard(|| &rg + &rb);
        }
        let (f, _c) = gen_ends_any(&mut r, nf);
        let (g, class) = gen_second(&mut r, &f);
        if r.chance(0.5) {
            symbolic(m, &f, &g, class);
        } else {
            symbolic(m, &g, &f, class);
        }
        if k % 8 == 1 {
            resplit(m, &mut r);
        }
        if k % 8 == 5 {
            nested(m, &mut r);
        }
        if k % 4 == 0 {
            // real pieces: positive finite ends as in the library's use case, plus whatever f,g are
            let nf = r.usize(1, 12);
            let fp = gen_ends(&mut r, nf, EndsClass::Bench);
            let (gp, _c) = gen_second(&mut r, &fp);
            real(m, &mut r, &fp, &gp);
        }
    }
}
