//! C17 — abs_diff_eq / relative_eq are number-by-number conjunctions for every type.

use ppv::flat::*;
use ppv::gen::*;
use ppv::mon::*;
use approx::{AbsDiffEq, RelativeEq};
use piecewise_polynomial::*;
use serde_json::json;

const EPS: [f64; 8] = [0.0, f64::EPSILON, 1e-9, 1.0, 1e6, 1e-300, f64::INFINITY, f64::MAX];
const REL: [f64; 7] = [f64::EPSILON, 1e-9, 0.5, 0.0, 1.5, 10.0, f64::INFINITY];

fn oracle_abs(a: &[f64], b: &[f64], eps: f64) -> bool {
    a.len() == b.len() && a.iter().zip(b).all(|(x, y)| f64::abs_diff_eq(x, y, eps))
}
fn oracle_rel(a: &[f64], b: &[f64], eps: f64, rel: f64) -> bool {
    a.len() == b.len() && a.iter().zip(b).all(|(x, y)| f64::relative_eq(x, y, eps, rel))
}

fn value(r: &mut Rng) -> f64 {
    if r.chance(0.02) {
        // non-finite contents: the relation is still the conjunction of f64's own relations
        return r.pick(&[f64::NAN, f64::INFINITY, f64::NEG_INFINITY]);
    }
    match r.below(8) {
        0 => 0.0,
        1 => r.small_int(5),
        2 => r.logu(9.0),
        3 => 1e6 * r.uniform(0.5, 2.0),
        _ => r.mixed(3.0),
    }
}

/// one comparison of an (a, b) pair of any approx type, flattened by `fa`, `fb`
pub fn compare<V>(m: &mut Mon, tname: &str, kind: &str, pos: i64, a: &V, b: &V, fa: &[f64], fb: &[f64], eps: f64, rel: f64)
where
    V: AbsDiffEq<Epsilon = f64> + RelativeEq + PartialEq,
{
    m.eval();
    m.count(&format!("type:{}", tname));
    let w = |what: &str, obs: bool, exp: bool| {
        json!({"type": tname, "pair_kind": kind, "perturbed_position": pos, "a": hxs(fa), "b": hxs(fb), "eps": hx(eps), "max_relative": hx(rel),
               "relation": what, "observed": obs, "expected": exp})
    };
    let exp_abs = oracle_abs(fa, fb, eps);
    let exp_rel = oracle_rel(fa, fb, eps, rel);
    match guard(|| (a.abs_diff_eq(b, eps), b.abs_diff_eq(a, eps), a.relative_eq(b, eps, rel), b.relative_eq(a, eps, rel), a == b)) {
        Err(p) => m.panic("approx comparison panic", &p, || w("panic", false, false)),
        Ok((ab, ba, rab, rba, eq)) => {
            let missing = if exp_abs { "false-negative" } else { "false-positive" };
            if ab != exp_abs {
                m.violation(&format!("abs_diff_eq differs from the number-by-number conjunction ({})", missing), || w("abs_diff_eq", ab, exp_abs));
            } else if ba != ab {
                m.violation("abs_diff_eq not symmetric", || w("abs_diff_eq(b,a)", ba, ab));
            }
            let missing = if exp_rel { "false-negative" } else { "false-positive" };
            if rab != exp_rel {
                m.violation(&format!("relative_eq differs from the number-by-number conjunction ({})", missing), || w("relative_eq", rab, exp_rel));
            } else if rba != oracle_rel(fb, fa, eps, rel) {
                m.violation("relative_eq not symmetric", || w("relative_eq(b,a)", rba, rab));
            }
            if eq && fa.iter().chain(fb.iter()).all(|x| x.is_finite()) && !(ab && rab) {
                m.violation("== does not imply approximate equality", || w("==", ab && rab, true));
            }
            if exp_abs {
                m.count("abs_true");
            } else {
                m.count("abs_false");
            }
            if exp_rel {
                m.count("rel_true");
            } else {
                m.count("rel_false");
            }
        }
    }
}

fn defaults<V: AbsDiffEq<Epsilon = f64> + RelativeEq>(m: &mut Mon, tname: &str) {
    m.eval();
    let (e, r) = (V::default_epsilon(), V::default_max_relative());
    if e.to_bits() != f64::default_epsilon().to_bits() || r.to_bits() != f64::default_max_relative().to_bits() {
        m.violation("default tolerances differ from those of f64", || json!({"type": tname, "default_epsilon": hx(e), "default_max_relative": hx(r)}));
    }
}

fn perturbations(x: f64, tol: f64) -> Vec<(f64, &'static str)> {
    let t = if tol == 0.0 { 1e-12 } else { tol };
    vec![
        (x, "unchanged"),
        (x + t * 0.5, "half_tol"),
        (x - t * 0.999, "just_inside"),
        (x + t * 2.0, "twice_tol"),
        (x - t * 1.5 - x.abs() * 0.75, "far"),
        (x + 1e30, "huge"),
        (x.next_up(), "one_ulp"),
    ]
}

/// everything for one function type T: the type itself, Segment<T>, Piecewise<T>
fn family<T>(m: &mut Mon, r: &mut Rng)
where
    T: Nums + AbsDiffEq<Epsilon = f64> + RelativeEq + PartialEq,
{
    defaults::<T>(m, T::NAME);
    defaults::<Segment<T>>(m, "Segment");
    defaults::<Piecewise<T>>(m, "Piecewise");
    let eps = r.pick(&EPS);
    let rel = r.pick(&REL);
    let base: Vec<f64> = (0..T::LEN).map(|_| value(r)).collect();
    let a = T::from_nums(&base);
    m.case(hash_bits(17, base.iter().map(|e| e.to_bits()).chain([eps.to_bits(), rel.to_bits(), T::LEN as u64, T::NAME.len() as u64])));
    // every field position in turn
    for pos in 0..T::LEN {
        for (nv, kind) in perturbations(base[pos], eps.max(rel * base[pos].abs())) {
            let mut bn = base.clone();
            bn[pos] = nv;
            let b = T::from_nums(&bn);
            m.count(&format!("position:{}:{}", T::NAME, pos));
            compare(m, T::NAME, kind, pos as i64, &a, &b, &base, &bn, eps, rel);
        }
    }
    // the very same object on both sides (an identity shortcut must not change the answer: NaN / inf contents)
    m.count("same_object_compared");
    compare(m, T::NAME, "same_object", -3, &a, &a, &base, &base, eps, rel);
    // random pair
    let other: Vec<f64> = (0..T::LEN).map(|_| value(r)).collect();
    compare(m, T::NAME, "random", -1, &a, &T::from_nums(&other), &base, &other, eps, rel);
    // Segment<T>: end is position 0
    let end = value(r);
    let sa = Segment { end, poly: a.clone() };
    let fa = sa.nums();
    for pos in 0..(T::LEN + 1) {
        let (nv, kind) = r.pick(&perturbations(fa[pos], eps.max(rel * fa[pos].abs())));
        let mut fb = fa.clone();
        fb[pos] = nv;
        let sb = Segment::<T>::from_nums(&fb);
        m.count(&format!("position:Segment<{}>:{}", T::NAME, pos));
        compare(m, "Segment", kind, pos as i64, &sa, &sb, &fa, &fb, eps, rel);
    }
    // Piecewise<T>
    let n = if r.chance(0.01) { r.usize(130, 1100) } else { r.usize(1, 6) };
    let ends: Vec<f64> = {
        let mut v: Vec<f64> = (0..n).map(|_| value(r)).collect();
        v.sort_by(|a, b| a.total_cmp(b));
        v
    };
    let coeffs: Vec<Vec<f64>> = (0..n).map(|_| (0..T::LEN).map(|_| value(r)).collect()).collect();
    let pa: Piecewise<T> = pw_from(&ends, &coeffs);
    let fa = pw_nums(&pa);
    for _ in 0..3 {
        let pos = r.usize(0, fa.len() - 1);
        let (nv, kind) = r.pick(&perturbations(fa[pos], eps.max(rel * fa[pos].abs())));
        let mut fb = fa.clone();
        fb[pos] = nv;
        let pb: Piecewise<T> = Piecewise { segments: fb.chunks(T::LEN + 1).map(|c| Segment::<T>::from_nums(c)).collect() };
        m.count(&format!("position:Piecewise<{}>:seg{}:field{}", T::NAME, (pos / (T::LEN + 1)).min(3), pos % (T::LEN + 1)));
        compare(m, "Piecewise", kind, pos as i64, &pa, &pb, &fa, &fb, eps, rel);
    }
    compare(m, "Piecewise", "same_object", -3, &pa, &pa, &fa, &fa, eps, rel);
    compare(m, "Segment", "same_object", -3, &sa, &sa, &sa.nums(), &sa.nums(), eps, rel);
    // different numbers of pieces: never approximately equal
    let mut pb = pa.clone();
    if r.chance(0.5) || pb.segments.len() == 1 {
        let extra = pb.segments[pb.segments.len() - 1].clone();
        pb.segments.push(extra);
    } else {
        pb.segments.pop();
    }
    let fb = pw_nums(&pb);
    m.count("piecewise_different_lengths");
    compare(m, "Piecewise", "different_lengths", -2, &pa, &pb, &fa, &fb, 1e300, 1.0);
    compare(m, "Piecewise", "different_lengths", -2, &pa, &pb, &fa, &fb, eps, rel);
    m.sample(&format!("family:{}", T::NAME), 1, || json!({"type": T::NAME, "a": base, "eps": eps, "max_relative": rel, "piecewise_pieces": n}));
}

fn polyn(m: &mut Mon, r: &mut Rng) {
    defaults::<PolyN>(m, "PolyN");
    let len = r.usize(0, 12);
    let base: Vec<f64> = (0..len).map(|_| value(r)).collect();
    let eps = r.pick(&EPS);
    let rel = r.pick(&REL);
    m.case(hash_bits(171, base.iter().map(|e| e.to_bits()).chain([eps.to_bits(), rel.to_bits()])));
    let a = PolyN(base.clone());
    compare(m, "PolyN", "same", -1, &a, &PolyN(base.clone()), &base, &base, eps, rel);
    // different lengths: never approximately equal (slice semantics), and therefore `==` must not hold either
    let mut longer = base.clone();
    longer.push(if r.chance(0.7) { 0.0 } else { -0.0 });
    m.count("polyn_different_lengths");
    compare(m, "PolyN", "trailing_zero_appended", -2, &a, &PolyN(longer.clone()), &base, &longer, eps, rel);
    compare(m, "PolyN", "trailing_zero_appended", -2, &a, &PolyN(longer.clone()), &base, &longer, 1e300, 1.0);
    m.count("same_object_compared");
    compare(m, "PolyN", "same_object", -3, &a, &a, &base, &base, eps, rel);
    for pos in 0..len {
        let (nv, kind) = r.pick(&perturbations(base[pos], eps.max(rel * base[pos].abs())));
        let mut bn = base.clone();
        bn[pos] = nv;
        m.count(&format!("position:PolyN:{}", pos));
        compare(m, "PolyN", kind, pos as i64, &a, &PolyN(bn.clone()), &base, &bn, eps, rel);
    }
}

pub fn canaries(m: &mut Mon) {
    let a = Poly2([1.0, 2.0, 3.0]);
    let b = Poly2([1.0, 2.0, 4.0]);
    // observation "claims equal" is produced by handing the checker flattened numbers that differ from the values compared
    m.canary(|m| compare(m, "canary", "canary", 2, &a, &a, &[1.0, 2.0, 3.0], &[1.0, 2.0, 4.0], 1e-9, 1e-9));
    m.canary(|m| compare(m, "canary", "canary", 2, &a, &b, &[1.0, 2.0, 3.0], &[1.0, 2.0, 3.0], 1e-9, 1e-9));
}

pub const FLOORS: &[&str] = &[
    "abs_true", "abs_false", "rel_true", "rel_false", "piecewise_different_lengths", "polyn_different_lengths", "same_object_compared",
    "type:PolyN", "type:Poly0", "type:Poly8", "type:Log<Poly4>", "type:IntOfLog<Poly3>", "type:IntOfLogPoly4", "type:Segment", "type:Piecewise",
    "position:IntOfLogPoly4:5", "position:IntOfLog<Poly8>:0", "position:IntOfLog<Poly8>:9", "position:Poly8:8", "position:Segment<Poly3>:0", "position:Log<Poly7>:7",
];

pub fn run(a: &Args, m: &mut Mon) {
    m.floors(FLOORS);
    canaries(m);
    let mut r = Rng::lane(a.seed, "C17", a.shard, 0);
    let n = a.n(30_000, 1_500_000);
    for _ in 0..n {
        macro_rules! fam {
            ($t:ident) => {
                family::<$t>(m, &mut r);
                family::<Log<$t>>(m, &mut r);
                family::<IntOfLog<$t>>(m, &mut r);
            };
        }
        ppv::for_polys!(fam);
        family::<IntOfLogPoly4>(m, &mut r);
        polyn(m, &mut r);
    }
}
