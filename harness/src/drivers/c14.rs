//! C14 — scaling, negation, addition, subtraction and translation of every function form act
//! number by number (bit-exact against the single IEEE operation) and hence pointwise.
//! Every operator impl that exists is named in the tables below: removing one breaks the build.

use ppv::flat::*;
use ppv::gen::*;
use ppv::mon::*;
use piecewise_polynomial::*;
use serde_json::json;

pub trait Mag: Nums + Evaluate {
    /// (sum of magnitudes of the mathematical terms of f at x, relative accuracy factor K)
    fn mag(&self, x: f64) -> (f64, f64);
    fn domain(x: f64) -> bool;
}
fn poly_mag(c: &[f64], x: f64) -> f64 {
    let mut a = 0.0;
    let mut p = 1.0;
    for ci in c {
        let t = ci.abs() * p;
        if *ci != 0.0 && !((1e-250..1e250).contains(&t) && (1e-250..1e250).contains(&p) && (1e-250..1e250).contains(&ci.abs())) {
            return f64::NAN;
        }
        a += t;
        p *= x.abs();
    }
    a
}
macro_rules! mag_poly {
    ($t:ident) => {
        impl Mag for $t {
            fn mag(&self, x: f64) -> (f64, f64) {
                (poly_mag(&self.nums(), x), 8.0 * (Self::LEN as f64 + 3.0))
            }
            fn domain(x: f64) -> bool {
                x.is_finite()
            }
        }
        impl Mag for Log<$t> {
            fn mag(&self, x: f64) -> (f64, f64) {
                (poly_mag(&self.nums(), x.ln()), 16.0 * (Self::LEN as f64 + 3.0))
            }
            fn domain(x: f64) -> bool {
                x.is_finite() && x > 1e-300
            }
        }
        impl Mag for IntOfLog<$t> {
            fn mag(&self, x: f64) -> (f64, f64) {
                let n = self.nums();
                // covers both k + v*q(ln v) and k + q(ln v)
                (n[0].abs() + (1.0 + x) * poly_mag(&n[1..], x.ln()), 32.0 * (Self::LEN as f64 + 3.0))
            }
            fn domain(x: f64) -> bool {
                x.is_finite() && x > 1e-300
            }
        }
    };
}
ppv::for_polys!(mag_poly);
impl Mag for IntOfLogPoly4 {
    fn mag(&self, v: f64) -> (f64, f64) {
        let n = self.nums();
        let x = v.ln().abs();
        let inner = poly_mag(&[0.0, n[1], n[2], n[3], n[4]], x) + n[5].abs() * x.exp();
        let m = n[0].abs() + v * inner;
        if !(inner < 1e250) {
            // the Estrin intermediate (before the multiplication by v) leaves the safe range
            return (f64::NAN, 1e5);
        }
        (m, 1e5) // 1e5 * 2^-53 ~ 1.1e-11: C10's accuracy claim (1e-12 S) for both evaluations plus slack
    }
    fn domain(x: f64) -> bool {
        x.is_finite() && x > 1e-300 && x.ln().abs() < 600.0
    }
}

fn coeff(r: &mut Rng) -> f64 {
    match r.below(12) {
        0 => 0.0,
        1 => -0.0,
        2 => r.small_int(9),
        3 => r.dyadic(),
        4 => r.logu(12.0),
        5 => r.logu(200.0),
        6 => f64::MIN_POSITIVE * r.uniform(0.25, 8.0) * r.sign(),
        7 => f64::MAX * r.uniform(0.1, 1.0) * r.sign(),
        _ => r.mixed(3.0),
    }
}
fn scalar(r: &mut Rng) -> f64 {
    if r.chance(0.08) {
        // one or two ulps beside a "special" scalar: shortcuts keyed on s == 1, -1, 2 ... with a tolerance show here
        let c = r.pick(&[1.0, -1.0, 2.0, 0.5, -2.0]);
        return ulps(c, r.pick(&[-2i64, -1, 1, 2]));
    }
    match r.below(12) {
        0 => 0.0,
        1 => -1.0,
        2 => 1.0,
        3 => -0.0,
        4 => f64::MIN_POSITIVE * r.uniform(0.25, 8.0),
        5 => 1e300 * r.sign(),
        6 => 2.0,
        7 => 0.5,
        _ => r.mixed(8.0),
    }
}
fn arg<T: Mag>(r: &mut Rng) -> f64 {
    for _ in 0..8 {
        let x = match r.below(5) {
            0 => r.logu_pos(3.0),
            1 => r.uniform(0.5, 2.0),
            2 => r.mixed(2.0),
            3 => r.small_int(5),
            _ => r.uniform(-3.0, 3.0),
        };
        if T::domain(x) {
            return x;
        }
    }
    1.5
}
/// second operand correlated with the first: identical, or equal in a random subset of positions
/// (special-cased fast paths in a binary operator only show on such pairs)
fn gen_like<T: Nums>(r: &mut Rng, f: &T) -> T {
    if r.chance(0.6) {
        return gen(r);
    }
    let a = f.nums();
    let fresh: T = gen(r);
    let b = fresh.nums();
    let mode = r.below(4);
    let k = r.usize(0, T::LEN - 1);
    let v: Vec<f64> = (0..T::LEN)
        .map(|i| match mode {
            0 => a[i],                                  // identical
            1 => if i == k { b[i] } else { a[i] },      // one position differs
            2 => if i == k { a[i] } else { b[i] },      // one position equal
            _ => if r.chance(0.5) { a[i] } else { b[i] },
        })
        .collect();
    T::from_nums(&v)
}

fn gen<T: Nums>(r: &mut Rng) -> T {
    let v: Vec<f64> = if r.chance(0.15) {
        // one-hot
        let k = r.usize(0, T::LEN - 1);
        (0..T::LEN).map(|i| if i == k { coeff(r) } else { 0.0 }).collect()
    } else if r.chance(0.5) {
        (0..T::LEN).map(|_| r.mixed(3.0)).collect()
    } else {
        (0..T::LEN).map(|_| coeff(r)).collect()
    };
    T::from_nums(&v)
}

/// bit-exact comparison of every number + value level
fn check<T: Mag>(m: &mut Mon, imp: &str, inputs: &[&T], s: f64, got: Result<T, String>, each: impl Fn(usize, &[f64]) -> f64, val: impl Fn(&[f64]) -> f64, scale_mag: f64, add_mag: f64, r: &mut Rng) {
    m.eval();
    m.count(&format!("impl:{}:{}", imp, T::NAME));
    let ins: Vec<Vec<f64>> = inputs.iter().map(|t| t.nums()).collect();
    let got = match got {
        Err(p) => {
            m.panic(&format!("{} panic", imp), &p, || json!({"type": T::NAME, "inputs": ins.iter().map(|v| hxs(v)).collect::<Vec<_>>(), "scalar": hx(s)}));
            return;
        }
        Ok(g) => g,
    };
    let gn = got.nums();
    for i in 0..T::LEN {
        let col: Vec<f64> = ins.iter().map(|v| v[i]).collect();
        let exp = each(i, &col);
        if !bits_eq(gn[i], exp) {
            m.violation(&format!("{} number differs from the single IEEE operation", imp), || {
                json!({"type": T::NAME, "position": i, "inputs": ins.iter().map(|v| hxs(v)).collect::<Vec<_>>(), "scalar": hx(s),
                       "observed": hx(gn[i]), "expected": hx(exp), "observed_all": hxs(&gn)})
            });
            return;
        }
    }
    // value level
    let x = arg::<T>(r);
    let mut mag = 0.0;
    let mut k = 1.0;
    let mut vals = Vec::new();
    for t in inputs {
        let (a, kk) = t.mag(x);
        mag += a;
        k = kk;
        vals.push(t.evaluate(x));
    }
    let total = mag * scale_mag + add_mag;
    if !(mag.is_finite() && total < 1e250 && mag * scale_mag.max(1.0) < 1e250 && (total == 0.0 || total > 1e-250) && (scale_mag == 0.0 || scale_mag > 1e-250)) || gn.iter().any(|g| !(g.abs() < 1e250) || (*g != 0.0 && g.abs() < 1e-290)) {
        m.count("value_level_out_of_domain");
        return;
    }
    let want = val(&vals);
    let gv = got.evaluate(x);
    let tol = k * f64::EPSILON * 0.5 * (total + mag);
    m.count("value_level_checks");
    let dev = (gv - want).abs();
    if tol > 0.0 {
        m.ratio(dev / tol, || json!({"impl": imp, "type": T::NAME, "x": hx(x)}));
    }
    if !(dev <= tol) {
        m.violation(&format!("{} value differs from the pointwise operation", imp), || {
            json!({"type": T::NAME, "inputs": ins.iter().map(|v| hxs(v)).collect::<Vec<_>>(), "scalar": hx(s), "x": hx(x),
                   "observed": hx(gv), "expected": hx(want), "tol": tol})
        });
    }
}

macro_rules! op_mul {
    ($m:expr, $r:expr, $t:ty) => {{
        let f: $t = gen($r);
        let s = scalar($r);
        $m.case(hash_bits(141, f.nums().iter().map(|e| e.to_bits()).chain([s.to_bits(), <$t as Nums>::LEN as u64])));
        // call styles a caller may write: operator, method on the value, method through a reference (resolved by
        // auto-deref on the pinned tree)
        let style = $r.below(3);
        let got = guard(|| {
            use std::ops::Mul;
            match style {
                0 => f * s,
                1 => f.mul(s),
                _ => {
                    let p = &f;
                    p.mul(s)
                }
            }
        });
        $m.count(["call_style:operator", "call_style:method", "call_style:method_through_reference"][style as usize]);
        check($m, "Mul<f64>", &[&f], s, got, |_i, c| c[0] * s, |v| s * v[0], s.abs(), 0.0, $r);
    }};
}
macro_rules! op_mul_assign {
    ($m:expr, $r:expr, $t:ty) => {{
        let f: $t = gen($r);
        let s = scalar($r);
        $m.case(hash_bits(142, f.nums().iter().map(|e| e.to_bits()).chain([s.to_bits(), <$t as Nums>::LEN as u64])));
        let got = guard(|| {
            let mut g = f.clone();
            g *= s;
            g
        });
        check($m, "MulAssign<f64>", &[&f], s, got, |_i, c| c[0] * s, |v| s * v[0], s.abs(), 0.0, $r);
    }};
}
macro_rules! op_neg {
    ($m:expr, $r:expr, $t:ty) => {{
        let f: $t = gen($r);
        $m.case(hash_bits(143, f.nums().iter().map(|e| e.to_bits()).chain([<$t as Nums>::LEN as u64])));
        let style = $r.below(3);
        let got = guard(|| {
            use std::ops::Neg;
            match style {
                0 => -f,
                1 => f.neg(),
                _ => {
                    let p = &f;
                    p.neg()
                }
            }
        });
        $m.count(["call_style:operator", "call_style:method", "call_style:method_through_reference"][style as usize]);
        check($m, "Neg", &[&f], -1.0, got, |_i, c| -c[0], |v| -v[0], 1.0, 0.0, $r);
    }};
}
macro_rules! op_add {
    ($m:expr, $r:expr, $t:ty) => {{
        let f: $t = gen($r);
        let g: $t = gen_like($r, &f);
        $m.case(hash_bits(144, f.nums().iter().chain(g.nums().iter()).map(|e| e.to_bits()).chain([<$t as Nums>::LEN as u64])));
        let got = guard(|| f + g);
        check($m, "Add", &[&f, &g], 0.0, got, |_i, c| c[0] + c[1], |v| v[0] + v[1], 1.0, 0.0, $r);
    }};
}
macro_rules! op_translate {
    ($m:expr, $r:expr, $t:ty) => {{
        let f: $t = gen($r);
        let s = scalar($r);
        $m.case(hash_bits(145, f.nums().iter().map(|e| e.to_bits()).chain([s.to_bits(), <$t as Nums>::LEN as u64])));
        let got = guard(|| {
            let mut g = f.clone();
            g.translate(s);
            g
        });
        check($m, "Translate", &[&f], s, got, |i, c| if i == 0 { c[0] + s } else { c[0] }, |v| v[0] + s, 1.0, s.abs(), $r);
    }};
}

fn quartic_ops(m: &mut Mon, r: &mut Rng) {
    type Q = IntOfLogPoly4;
    let f: Q = gen(r);
    let g: Q = if r.chance(0.3) {
        // equal coefficient block, different k / u (and the reverse)
        let a = f.nums();
        let b: Q = gen(r);
        let b = b.nums();
        if r.chance(0.5) {
            Q::from_nums(&[b[0], a[1], a[2], a[3], a[4], b[5]])
        } else {
            Q::from_nums(&[a[0], b[1], b[2], b[3], b[4], a[5]])
        }
    } else {
        gen_like(r, &f)
    };
    if f.coeffs == g.coeffs && f.u != g.u {
        m.count("quartic_pair_equal_coeffs_different_u");
    }
    m.case(hash_bits(146, f.nums().iter().chain(g.nums().iter()).map(|e| e.to_bits())));
    let got = guard(|| f + g);
    check(m, "Add", &[&f, &g], 0.0, got, |_i, c| c[0] + c[1], |v| v[0] + v[1], 1.0, 0.0, r);
    let got = guard(|| &f + &g);
    check(m, "Add<&>", &[&f, &g], 0.0, got, |_i, c| c[0] + c[1], |v| v[0] + v[1], 1.0, 0.0, r);
    let got = guard(|| f - g);
    check(m, "Sub", &[&f, &g], 0.0, got, |_i, c| c[0] - c[1], |v| v[0] - v[1], 1.0, 0.0, r);
    let got = guard(|| &f - &g);
    check(m, "Sub<&>", &[&f, &g], 0.0, got, |_i, c| c[0] - c[1], |v| v[0] - v[1], 1.0, 0.0, r);
    op_neg!(m, r, Q);
    op_mul!(m, r, Q);
    op_translate!(m, r, Q);
}

fn polyn_translate(m: &mut Mon, r: &mut Rng) {
    m.eval();
    m.count("impl:Translate:PolyN");
    let len = if r.chance(0.3) { 0 } else { r.usize(1, 12) };
    let c: Vec<f64> = (0..len).map(|_| coeff(r)).collect();
    let s = scalar(r);
    m.case(hash_bits(147, c.iter().map(|e| e.to_bits()).chain([s.to_bits(), len as u64])));
    let got = guard(|| {
        let mut p = PolyN(c.clone());
        p.translate(s);
        p
    });
    match got {
        Err(p) => m.panic("PolyN translate panic", &p, || json!({"coeffs": hxs(&c), "scalar": hx(s)})),
        Ok(p) => {
            let exp: Vec<f64> = if c.is_empty() {
                m.count("polyn_empty_translate");
                vec![s]
            } else {
                let mut e = c.clone();
                e[0] += s;
                e
            };
            if !all_bits_eq(&p.0, &exp) {
                m.violation("PolyN Translate number differs from the single IEEE operation", || {
                    json!({"coeffs": hxs(&c), "scalar": hx(s), "observed": hxs(&p.0), "expected": hxs(&exp)})
                });
            } else if exp.len() == 1 && exp[0].is_finite() {
                // "an empty dynamic-degree polynomial becomes the constant c": its value at any x is that constant
                let x = r.mixed(3.0);
                m.count("polyn_constant_value_checked");
                match guard(|| p.evaluate(x)) {
                    Err(pn) => m.panic("PolyN evaluate panic", &pn, || json!({"coeffs": hxs(&p.0)})),
                    Ok(v) => {
                        if v != exp[0] {
                            m.violation("PolyN Translate value differs from the pointwise operation", || json!({"coeffs": hxs(&c), "scalar": hx(s), "x": hx(x), "observed": hx(v), "expected": hx(exp[0])}));
                        }
                    }
                }
            }
        }
    }
}

pub fn canaries(m: &mut Mon, r: &mut Rng) {
    let f = Poly3([1.0, 2.0, 3.0, 4.0]);
    // lane copy-paste: position 2 computed from position 1
    m.canary(|m| check(m, "canary", &[&f], 3.0, Ok(Poly3([3.0, 6.0, 6.0, 12.0])), |_i, c| c[0] * 3.0, |v| 3.0 * v[0], 3.0, 0.0, r));
    // translate touching a higher coefficient
    m.canary(|m| check(m, "canary", &[&f], 1.0, Ok(Poly3([2.0, 3.0, 3.0, 4.0])), |i, c| if i == 0 { c[0] + 1.0 } else { c[0] }, |v| v[0] + 1.0, 1.0, 1.0, r));
    // one ulp off
    m.canary(|m| check(m, "canary", &[&f], 0.1, Ok(Poly3([0.1, 0.2, (3.0f64 * 0.1).next_up(), 0.4])), |_i, c| c[0] * 0.1, |v| 0.1 * v[0], 0.1, 0.0, r));
}

pub const FLOORS: &[&str] = &[
    "value_level_checks",
    "call_style:method_through_reference",
    "polyn_empty_translate",
    "polyn_constant_value_checked",
    "quartic_pair_equal_coeffs_different_u",
    "impl:Mul<f64>:Poly0", "impl:MulAssign<f64>:Poly5", "impl:Neg:Poly8", "impl:Add:Poly6", "impl:Translate:Poly7",
    "impl:Mul<f64>:Log<Poly3>", "impl:MulAssign<f64>:Log<Poly8>", "impl:Translate:Log<Poly0>",
    "impl:Add:IntOfLog<Poly2>", "impl:Mul<f64>:IntOfLog<Poly4>", "impl:MulAssign<f64>:IntOfLog<Poly7>", "impl:Neg:IntOfLog<Poly1>", "impl:Translate:IntOfLog<Poly6>",
    "impl:Add:IntOfLogPoly4", "impl:Add<&>:IntOfLogPoly4", "impl:Sub:IntOfLogPoly4", "impl:Sub<&>:IntOfLogPoly4", "impl:Neg:IntOfLogPoly4", "impl:Mul<f64>:IntOfLogPoly4", "impl:Translate:IntOfLogPoly4",
    "impl:Translate:PolyN",
];

pub fn run(a: &Args, m: &mut Mon) {
    m.floors(FLOORS);
    let mut r = Rng::lane(a.seed, "C14", a.shard, 0);
    canaries(m, &mut r);
    let n = a.n(48_000, 2_400_000);
    for _ in 0..n {
        macro_rules! per_poly {
            ($t:ident) => {
                op_mul!(m, &mut r, $t);
                op_mul_assign!(m, &mut r, $t);
                op_neg!(m, &mut r, $t);
                op_add!(m, &mut r, $t);
                op_translate!(m, &mut r, $t);
                op_mul!(m, &mut r, Log<$t>);
                op_mul_assign!(m, &mut r, Log<$t>);
                op_translate!(m, &mut r, Log<$t>);
                op_add!(m, &mut r, IntOfLog<$t>);
                op_mul!(m, &mut r, IntOfLog<$t>);
                op_mul_assign!(m, &mut r, IntOfLog<$t>);
                op_neg!(m, &mut r, IntOfLog<$t>);
                op_translate!(m, &mut r, IntOfLog<$t>);
            };
        }
        ppv::for_polys!(per_poly);
        quartic_ops(m, &mut r);
        polyn_translate(m, &mut r);
    }
    m.sample("impl-table", 1, || json!({"impls_exercised": m_impls()}));
}
fn m_impls() -> usize {
    9 * 13 + 7 + 1
}
