//! C03 — PiecewiseEvaluator agrees with direct evaluation on every history.
//! Online trace monitor over hostile histories (workload A) and a state-hash-guided exploration of
//! the evaluator's reachable states to a fixpoint (workload B). C16 reuses both with NaN allowed.

use ppv::flat::*;
use ppv::gen::*;
use ppv::mon::*;
use ppv::probe::*;
use piecewise_polynomial::*;
use serde_json::json;
use std::collections::{HashMap, VecDeque};

fn hist_json(h: &[f64]) -> serde_json::Value {
    json!(h.iter().take(64).map(|x| hx(*x)).collect::<Vec<_>>())
}

/// classify the move from prev -> x for evidence / floors
fn classify_move(m: &mut Mon, ends: &[f64], prev: Option<f64>, x: f64) {
    match prev {
        None => {
            m.count("first_query");
            let first_end = ends[0];
            if x < first_end {
                m.count("first_query_below_first_end");
            }
        }
        Some(p) => {
            if p.is_nan() || x.is_nan() {
                return;
            }
            let sp = sel(ends, p) as i64;
            let sx = sel(ends, x) as i64;
            if x >= p {
                m.count("forward_move");
            } else {
                m.count("backward_move");
                if ends.iter().any(|e| *e == x) {
                    m.count("backward_move_landing_exactly_on_end");
                }
                if sp - sx >= 2 {
                    m.count("backward_jump_over_2plus_segments");
                }
                if sp == ends.len() as i64 - 1 && sx == 0 && ends.len() >= 3 {
                    m.count("jump_last_to_first");
                }
            }
            if x.to_bits() == p.to_bits() {
                m.count("repeated_argument");
            }
            let d = (sp - sx).unsigned_abs();
            let b = if d == 0 {
                "jump_0"
            } else if d == 1 {
                "jump_1"
            } else if d < 8 {
                "jump_2_7"
            } else {
                "jump_8plus"
            };
            m.count(b);
        }
    }
}

/// Run one history through a fresh evaluator over tag pieces; every non-NaN answer is checked
/// against the reference model and against Piecewise::evaluate. Returns false if it panicked.
pub fn tag_history(m: &mut Mon, prop_nan: bool, ends: &[f64], pw: &Piecewise<Tag>, hist: &[f64], what: &str) -> bool {
    let mut ev = match guard(|| PiecewiseEvaluator::new(&pw.segments)) {
        Ok(e) => e,
        Err(p) => {
            m.panic("PiecewiseEvaluator::new panic", &p, || json!({"ends": hxs(ends)}));
            return false;
        }
    };
    let mut prev: Option<f64> = None;
    let mut seen_nan = false;
    for (k, &x) in hist.iter().enumerate() {
        m.eval();
        classify_move(m, ends, prev, x);
        let got = guard(|| ev.evaluate(x));
        match got {
            Err(p) => {
                m.panic(&format!("{} evaluator panic", what), &p, || {
                    json!({"ends": hxs(ends), "history_prefix": hist_json(&hist[..=k]), "k": k, "x": hx(x)})
                });
                return false;
            }
            Ok(v) => {
                if x.is_nan() {
                    seen_nan = true;
                    m.count("nan_query");
                    prev = Some(x);
                    continue;
                }
                let s = sel(ends, x);
                let exp = tagval(s as u32, x);
                let direct = guard(|| pw.evaluate(x));
                let direct_ok = matches!(direct, Ok(d) if d.to_bits() == v.to_bits());
                if v.to_bits() != exp.to_bits() || !direct_ok {
                    let which: Vec<usize> = (0..ends.len())
                        .filter(|i| tagval(*i as u32, x).to_bits() == v.to_bits())
                        .collect();
                    let sig = if seen_nan && prop_nan {
                        format!("{} evaluator answer-after-NaN differs from direct evaluation", what)
                    } else if v.to_bits() != exp.to_bits() {
                        format!("{} evaluator wrong-segment", what)
                    } else {
                        format!("{} evaluator differs from Piecewise::evaluate", what)
                    };
                    let start = k.saturating_sub(6);
                    m.violation(&sig, || {
                        json!({"ends": hxs(ends), "ends_v": ends, "history_tail": hist_json(&hist[start..=k]),
                               "history_tail_v": hist[start..=k].iter().map(|x| format!("{:e}", x)).collect::<Vec<_>>(),
                               "k": k, "x": hx(x), "expected_segment": s, "observed_segment": which,
                               "history_len": hist.len()})
                    });
                    if seen_nan {
                        // after a NaN one report per history is enough
                        return true;
                    }
                }
                if seen_nan {
                    m.count("answer_checked_after_nan");
                }
            }
        }
        prev = Some(x);
    }
    true
}

/// Same with a real piece type: bits must equal Piecewise::evaluate and the selected piece.
pub fn real_history<T: Nums + Evaluate + Sync>(m: &mut Mon, r: &mut Rng, positive: bool, allow_nan: bool, maxlen: usize) {
    let n = match r.below(10) {
        0 => 1,
        1..=6 => r.usize(2, 8),
        _ => r.usize(9, 64),
    };
    let ends = if positive {
        let c = r.pick(&[EndsClass::Positive, EndsClass::Bench]);
        gen_ends(r, n, c)
    } else {
        gen_ends_any(r, n).0
    };
    let mut coeffs: Vec<Vec<f64>> = (0..ends.len())
        .map(|_| (0..T::LEN).map(|_| r.mixed(2.0)).collect())
        .collect();
    repeat_some_pieces(r, &mut coeffs);
    let pw: Piecewise<T> = pw_from(&ends, &coeffs);
    real_history_on(m, r, &pw, allow_nan, maxlen);
}

/// history check on a given function with real pieces (also used for functions the library itself built)
pub fn real_history_on<T: Nums + Evaluate + Sync>(m: &mut Mon, r: &mut Rng, pw: &Piecewise<T>, allow_nan: bool, maxlen: usize) {
    let ends: Vec<f64> = pw_ends(pw);
    let pol = r.pick(&POLICIES);
    let len = r.usize(1, maxlen);
    let mut hist = gen_history(r, &ends, len, pol);
    if allow_nan {
        for _ in 0..r.usize(1, 3) {
            let k = r.usize(0, hist.len() - 1);
            hist[k] = f64::NAN;
        }
    }
    let mut h = hash_bits(5, pw_nums(pw).iter().map(|e| e.to_bits()));
    h = hash_bits(h, hist.iter().map(|e| e.to_bits()));
    m.case(mix2(h, T::LEN as u64));
    m.count(&format!("histories_real:{}", T::NAME));
    if r.below(8) == 0 && hist.len() <= 64 {
        // the answer to a query must not depend on what was evaluated before it -- anywhere on the thread: replay
        // the history on a brand-new thread and compare with direct evaluation done here
        m.count("histories_replayed_on_fresh_thread");
        let direct: Vec<Result<f64, String>> = hist.iter().map(|x| guard(|| pw.evaluate(*x))).collect();
        let got: Result<Vec<f64>, String> = guard(|| {
            std::thread::scope(|sc| {
                sc.spawn(|| {
                    let mut ev = PiecewiseEvaluator::new(&pw.segments);
                    hist.iter().map(|x| ev.evaluate(*x)).collect::<Vec<f64>>()
                })
                .join()
                .map_err(|_| ())
                .expect("library panic on a fresh thread")
            })
        });
        match got {
            Err(p) => m.panic("real evaluator panic (fresh thread)", &p, || json!({"type": T::NAME, "ends": hxs(&ends)})),
            Ok(vs) => {
                let mut seen_nan = false;
                for (k, (v, d)) in vs.iter().zip(direct.iter()).enumerate() {
                    m.eval();
                    if hist[k].is_nan() {
                        seen_nan = true;
                        continue;
                    }
                    if let Ok(dv) = d {
                        if !bits_eq(*v, *dv) {
                            let sig = if seen_nan { "real evaluator answer-after-NaN differs from direct evaluation" } else { "real evaluator on a fresh thread differs from direct evaluation made earlier" };
                            m.violation(sig, || json!({"type": T::NAME, "ends": hxs(&ends), "history": hist_json(&hist[..=k]), "k": k, "observed": hx(*v), "direct": hx(*dv)}));
                            break;
                        }
                    }
                }
            }
        }
    }
    let mut ev = PiecewiseEvaluator::new(&pw.segments);
    let mut seen_nan = false;
    for (k, &x) in hist.iter().enumerate() {
        m.eval();
        match guard(|| ev.evaluate(x)) {
            Err(p) => {
                m.panic("real evaluator panic", &p, || json!({"type": T::NAME, "ends": hxs(&ends), "k": k, "x": hx(x)}));
                return;
            }
            Ok(v) => {
                if x.is_nan() {
                    seen_nan = true;
                    continue;
                }
                let s = sel(&ends, x);
                let exp = pw.segments[s].poly.evaluate(x);
                let direct = pw.evaluate(x);
                if !bits_eq(v, exp) || !bits_eq(v, direct) {
                    let sig = if seen_nan {
                        "real evaluator answer-after-NaN differs from direct evaluation"
                    } else {
                        "real evaluator differs from direct evaluation"
                    };
                    let start = k.saturating_sub(6);
                    m.violation(sig, || {
                        json!({"type": T::NAME, "ends": hxs(&ends), "history_tail": hist_json(&hist[start..=k]),
                               "x": hx(x), "observed": hx(v), "direct": hx(direct), "selected_piece": hx(exp), "expected_segment": s})
                    });
                    if seen_nan {
                        return;
                    }
                }
            }
        }
    }
}

/// Workload B: breadth-first exploration of evaluator states (hook H1 used for hashing only).
/// From every reachable state every alphabet query is applied and its answer checked.
/// (front segments skipped, bits of the last argument) through the library's observation hook; None in the
/// configuration built without hooks (the state exploration is skipped there, the history lanes are not)
#[cfg(feature = "hooks")]
fn ev_state<T>(ev: &PiecewiseEvaluator<T>) -> Option<(usize, u64)> {
    let (a, _b, c) = ev.verif_state();
    Some((a, c))
}
#[cfg(not(feature = "hooks"))]
fn ev_state<T>(_ev: &PiecewiseEvaluator<T>) -> Option<(usize, u64)> {
    None
}

pub fn explore(m: &mut Mon, prop_nan: bool, ends: &[f64], alphabet: &[f64], max_states: usize) {
    if !cfg!(feature = "hooks") {
        m.count("state_exploration_skipped_in_the_build_without_hooks");
        return;
    }
    let pw = tag_pw(ends);
    type St = (usize, u64);
    let mut paths: HashMap<St, Vec<u32>> = HashMap::new();
    let mut queue: VecDeque<St> = VecDeque::new();
    let ev0 = PiecewiseEvaluator::new(&pw.segments);
    let s0 = ev_state(&ev0).expect("hooks");
    paths.insert(s0, vec![]);
    queue.push_back(s0);
    let mut transitions = 0u64;
    let mut complete = true;
    while let Some(st) = queue.pop_front() {
        let path = paths[&st].clone();
        for (qi, &q) in alphabet.iter().enumerate() {
            let mut ev = PiecewiseEvaluator::new(&pw.segments);
            let mut ok = true;
            let mut nan_in_path = false;
            for &pi in &path {
                let px = alphabet[pi as usize];
                nan_in_path |= px.is_nan();
                if guard(|| ev.evaluate(px)).is_err() {
                    ok = false;
                    break;
                }
            }
            if !ok {
                continue; // already reported when the path was discovered
            }
            m.eval();
            transitions += 1;
            let got = guard(|| ev.evaluate(q));
            match got {
                Err(p) => {
                    m.panic("exploration evaluator panic", &p, || {
                        json!({"ends": hxs(ends), "path": path.iter().map(|i| hx(alphabet[*i as usize])).collect::<Vec<_>>(), "x": hx(q)})
                    });
                    continue;
                }
                Ok(v) => {
                    if !q.is_nan() {
                        let s = sel(ends, q);
                        let exp = tagval(s as u32, q);
                        if v.to_bits() != exp.to_bits() {
                            let which: Vec<usize> = (0..ends.len())
                                .filter(|i| tagval(*i as u32, q).to_bits() == v.to_bits())
                                .collect();
                            let sig = if nan_in_path && prop_nan {
                                "exploration evaluator answer-after-NaN differs from direct evaluation"
                            } else {
                                "exploration evaluator wrong-segment"
                            };
                            m.violation(sig, || {
                                json!({"ends": hxs(ends), "ends_v": ends,
                                       "path": path.iter().map(|i| hx(alphabet[*i as usize])).collect::<Vec<_>>(),
                                       "path_v": path.iter().map(|i| format!("{:e}", alphabet[*i as usize])).collect::<Vec<_>>(),
                                       "state": {"skipped": st.0, "last": format!("{:016x}", st.1)},
                                       "x": hx(q), "x_v": format!("{:e}", q), "expected_segment": s, "observed_segment": which})
                            });
                        }
                        if nan_in_path {
                            m.count("answer_checked_after_nan");
                        }
                    }
                }
            }
            let ns = ev_state(&ev).expect("hooks");
            if !paths.contains_key(&ns) {
                if paths.len() >= max_states {
                    complete = false;
                    continue;
                }
                let mut np = path.clone();
                np.push(qi as u32);
                paths.insert(ns, np);
                queue.push_back(ns);
            }
        }
    }
    m.add("exploration_states", paths.len() as u64);
    m.add("exploration_transitions", transitions);
    m.count("exploration_functions");
    if complete {
        m.count("exploration_fixpoints_reached");
    } else {
        m.count("exploration_truncated");
    }
    let depth = paths.values().map(|p| p.len()).max().unwrap_or(0);
    m.add(&format!("exploration_depth_{}", depth.min(6)), 1);
    m.case(hash_bits(7, ends.iter().map(|e| e.to_bits()).chain(alphabet.iter().map(|e| e.to_bits()))));
    m.sample("exploration", 2, || {
        json!({"ends": ends, "alphabet_size": alphabet.len(), "states": paths.len(), "transitions": transitions,
               "fixpoint": complete, "max_depth": depth})
    });
}

pub fn alphabet_for(ends: &[f64], with_nan: bool) -> Vec<f64> {
    let mut q = critical_queries(ends);
    if with_nan {
        q.push(f64::NAN);
    }
    q
}

pub fn canaries(m: &mut Mon) {
    // corrupted observations fed to the same comparison
    let ends = [1.0, 2.0, 3.0, 4.0];
    let pw_wrong = Piecewise {
        segments: vec![
            Segment { end: 1.0, poly: Tag { id: 0 } },
            Segment { end: 2.0, poly: Tag { id: 1 } },
            Segment { end: 3.0, poly: Tag { id: 3 } }, // ids of the last two swapped: observations are "wrong segment"
            Segment { end: 4.0, poly: Tag { id: 2 } },
        ],
    };
    m.canary(|m| {
        tag_history(m, false, &ends, &pw_wrong, &[0.5, 2.5], "canary");
    });
    m.canary(|m| {
        tag_history(m, false, &ends, &pw_wrong, &[3.5, 0.0, 3.5], "canary");
    });
}

pub const FLOORS: &[&str] = &[
    "histories_with_more_than_10000_backward_moves",
    "piece_panicked_and_evaluator_reused",
    "forward_move",
    "backward_move",
    "backward_move_landing_exactly_on_end",
    "backward_jump_over_2plus_segments",
    "jump_last_to_first",
    "repeated_argument",
    "first_query_below_first_end",
    "single_segment_histories",
    "duplicate_end_histories",
    "exploration_fixpoints_reached",
    "exploration_states",
    "exploration_transitions",
    "pipeline_functions",
    "histories_replayed_on_fresh_thread",
];

pub fn workload_a(a: &Args, m: &mut Mon, r: &mut Rng, nhist: u64, nan: bool, maxlen_thorough: usize) {
    let maxlen = if a.thorough() { maxlen_thorough } else { 300 };
    for k in 0..nhist {
        let n = match r.below(12) {
            0 => 1,
            1..=7 => r.usize(2, 8),
            8..=10 => r.usize(9, 64),
            _ => {
                if k % 40 == 7 {
                    m.count("very_long_functions");
                    r.usize(1000, 6000)
                } else {
                    r.usize(65, 300)
                }
            }
        };
        let (ends, _c) = gen_ends_any(r, n);
        if ends.len() == 1 {
            m.count("single_segment_histories");
        }
        if ends.windows(2).any(|w| w[0] == w[1]) {
            m.count("duplicate_end_histories");
        }
        let pw = tag_pw(&ends);
        let pol = r.pick(&POLICIES);
        let len = if k % 997 == 0 { maxlen } else { r.usize(1, 64.min(maxlen)) };
        let mut hist = gen_history(r, &ends, len, pol);
        if nan {
            for _ in 0..r.usize(1, 3) {
                let i = r.usize(0, hist.len() - 1);
                hist[i] = match r.below(4) {
                    0 => f64::INFINITY,
                    1 => f64::NEG_INFINITY,
                    _ => f64::from_bits(0x7ff8_0000_0000_0000 | (r.next_u64() & 0xffff) | ((r.next_u64() & 1) << 63)),
                };
            }
        }
        m.case(hash_bits(4, ends.iter().chain(hist.iter()).map(|e| e.to_bits())));
        m.count(&format!("histories_policy:{:?}", pol));
        tag_history(m, nan, &ends, &pw, &hist, "history");
        m.sample(&format!("history:{:?}", pol), 1, || json!({"ends": ends.iter().take(12).collect::<Vec<_>>(), "n_segments": ends.len(),
            "history": hist.iter().take(12).collect::<Vec<_>>(), "history_len": hist.len()}));
        if k % 16 == 5 {
            pipeline(m, r, nan);
        }
        if k % 16 == 9 && !nan {
            panicking_piece_history(m, r);
        }
        if k % 3 == 0 {
            macro_rules! go {
                ($t:ident) => {
                    match r.below(3) {
                        0 => real_history::<$t>(m, r, false, nan, 64),
                        1 => real_history::<Log<$t>>(m, r, true, nan, 64),
                        _ => real_history::<IntOfLog<$t>>(m, r, true, nan, 64),
                    }
                };
            }
            match r.below(10) {
                0 => go!(Poly0),
                1 => go!(Poly1),
                2 => go!(Poly2),
                3 => go!(Poly3),
                4 => go!(Poly4),
                5 => go!(Poly5),
                6 => go!(Poly6),
                7 => go!(Poly7),
                8 => go!(Poly8),
                _ => real_history::<IntOfLogPoly4>(m, r, true, nan, 64),
            }
        }
    }
}

/// A piece type with a domain assertion: evaluating it at one poisoned argument panics. The caller catches the panic
/// and keeps using the same evaluator; every later answer must still be the one direct evaluation gives ("the answer to
/// a query never depends on the queries made before it" — including a query whose piece refused its argument).
#[derive(Clone, Copy)]
struct Boom {
    id: u32,
    poison: u64,
}
impl Evaluate for Boom {
    fn evaluate(&self, x: f64) -> f64 {
        assert!(x.to_bits() != self.poison, "argument outside the domain of this piece (probe)");
        tagval(self.id, x)
    }
}

fn panicking_piece_history(m: &mut Mon, r: &mut Rng) {
    let n = r.usize(2, 9);
    let ends = gen_ends_any(r, n).0;
    let pol = r.pick(&POLICIES);
    let len = r.usize(3, 40);
    let hist = gen_history(r, &ends, len, pol);
    let poison = hist[r.usize(0, hist.len() - 2)];
    if poison.is_nan() {
        return;
    }
    let pw: Piecewise<Boom> = Piecewise { segments: ends.iter().enumerate().map(|(i, e)| Segment { end: *e, poly: Boom { id: i as u32, poison: poison.to_bits() } }).collect() };
    m.count("histories_with_a_panicking_piece");
    m.case(hash_bits(33, ends.iter().chain(hist.iter()).map(|e| e.to_bits()).chain([poison.to_bits()])));
    let mut ev = PiecewiseEvaluator::new(&pw.segments);
    for (k, &x) in hist.iter().enumerate() {
        if x.is_nan() {
            continue;
        }
        m.eval();
        let got = guard(|| ev.evaluate(x));
        if x.to_bits() == poison.to_bits() {
            m.count("piece_panicked_and_evaluator_reused");
            continue;
        }
        let s = sel(&ends, x);
        let exp = tagval(s as u32, x);
        match got {
            Err(p) => {
                m.panic("evaluator panic after a piece had panicked earlier", &p, || json!({"ends": hxs(&ends), "history_prefix": hist_json(&hist[..=k]), "poison": hx(poison)}));
                return;
            }
            Ok(v) => {
                if v.to_bits() != exp.to_bits() {
                    m.violation("history evaluator wrong-segment after a piece had panicked", || {
                        json!({"ends": hxs(&ends), "history_prefix": hist_json(&hist[..=k]), "poison": hx(poison), "k": k, "expected_segment": s})
                    });
                    return;
                }
            }
        }
    }
}

/// One evaluator serving a very long history on a short function: tens of thousands of backward moves.
fn many_backward_moves(m: &mut Mon, r: &mut Rng, len: usize) {
    let n = r.usize(3, 12);
    let ends = gen_ends_any(r, n).0;
    let pw = tag_pw(&ends);
    let qs = critical_queries(&ends);
    let hist: Vec<f64> = (0..len).map(|_| qs[r.usize(0, qs.len() - 1)]).filter(|x| !x.is_nan()).collect();
    m.count("histories_with_more_than_10000_backward_moves");
    m.case(hash_bits(34, ends.iter().map(|e| e.to_bits()).chain([len as u64])));
    tag_history(m, false, &ends, &pw, &hist, "history");
}

/// Functions the library itself produced (knots -> constrained_spline / linear -> derivative / integral / scale),
/// queried through the evaluator with hostile histories: the realistic downstream composition.
pub fn pipeline(m: &mut Mon, r: &mut Rng, nan: bool) {
    let nk = r.usize(3, 30);
    let mut x = r.uniform(-5.0, 5.0);
    let knots: Vec<Knot> = (0..nk)
        .map(|i| {
            let k = Knot { x, y: if r.chance(0.5) { (i as f64 * 0.9).sin() } else { r.small_int(3) } };
            x += if r.chance(0.1) { 0.0 } else { r.uniform(0.1, 2.0) };
            k
        })
        .collect();
    m.count("pipeline_functions");
    match r.below(4) {
        0 => {
            // linear tolerates repeated abscissae (zero-width segments, duplicate ends)
            if let Ok(pw) = guard(|| linear(&knots)) {
                real_history_on(m, r, &pw, nan, 64);
            }
        }
        1 => {
            if let Ok(pw) = guard(|| linear(&knots).integral(Knot { x: knots[0].x, y: 0.0 })) {
                real_history_on(m, r, &pw, nan, 64);
            }
        }
        k => {
            let mut ks = knots.clone();
            for i in 1..ks.len() {
                if !(ks[i].x > ks[i - 1].x) {
                    ks[i].x = ks[i - 1].x + 0.5;
                }
            }
            if k == 2 {
                if let Ok(pw) = guard(|| constrained_spline(&ks) * 2.0) {
                    real_history_on(m, r, &pw, nan, 64);
                }
            } else if let Ok(pw) = guard(|| constrained_spline(&ks).integral(Knot { x: ks[0].x, y: 1.0 }).derivative()) {
                real_history_on(m, r, &pw, nan, 64);
            }
        }
    }
}

pub fn workload_b(a: &Args, m: &mut Mon, r: &mut Rng, nfun: u64, nan: bool) {
    for k in 0..nfun {
        let n = if a.thorough() && k % 20 == 0 {
            r.usize(9, 30)
        } else {
            r.usize(1, 8)
        };
        let class = r.pick(&[
            EndsClass::Strict,
            EndsClass::Dups,
            EndsClass::UlpWide,
            EndsClass::MixedZero,
            EndsClass::IntGrid,
            EndsClass::WideSpan,
        ]);
        let ends = gen_ends(r, n, class);
        let alpha = alphabet_for(&ends, nan);
        explore(m, nan, &ends, &alpha, 200_000);
    }
}

pub fn run(a: &Args, m: &mut Mon) {
    m.floors(FLOORS);
    canaries(m);
    let mut r = Rng::lane(a.seed, "C03", a.shard, 0);
    if a.shard == 0 {
        // fixed corpus: the suite's own function and the shapes the property names
        for ends in [
            vec![5.0, 10.0, 15.0],
            vec![1.0],
            vec![1.0, 1.0],
            vec![1.0, 1.0, 1.0, 2.0, 2.0],
            vec![1.0, 2.0, 3.0, 4.0],
            vec![-0.0, 0.0, 1.0],
            vec![f64::NEG_INFINITY, 0.0, f64::INFINITY],
        ] {
            let alpha = alphabet_for(&ends, false);
            explore(m, false, &ends, &alpha, 1_000_000);
        }
        // one function longer than 2^16 segments
        let big: Vec<f64> = (0..70_001).map(|i| (i / 3) as f64 * 0.5).collect();
        let pw = tag_pw(&big);
        for pol in [Policy::Jumps, Policy::Down, Policy::LastFirst, Policy::ExactHits] {
            let hist = gen_history(&mut r, &big, 40, pol);
            tag_history(m, false, &big, &pw, &hist, "history");
        }
        m.count("function_longer_than_65536");
    }
    many_backward_moves(m, &mut r, if a.thorough() { 400_000 } else { 50_000 });
    let nh = a.n(1_200_000, 100_000_000);
    workload_a(a, m, &mut r, nh, false, 100_000);
    let nf = a.n(6_000, 60_000);
    workload_b(a, m, &mut r, nf, false);
}
