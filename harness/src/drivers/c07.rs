//! C07 — polynomial integration (indefinite / integral through a knot), C08 — differentiation.
//! Drivers: record the returned coefficients and evaluations; exact oracles: oracles/c07.py, c08.py.
//! The structural halves (Segment / Piecewise keep ends, order and count; pieces equal the per-piece
//! operation bit for bit) are decided online here.

use ppv::polygen::{arg_poly, coeff_vec};
use ppv::events::*;
use ppv::flat::*;
use ppv::gen::*;
use ppv::mon::*;
use ppv::probe::*;
use piecewise_polynomial::*;
use serde_json::json;

fn knot(r: &mut Rng) -> Knot {
    let x = match r.below(9) {
        8 => r.sign() * 10f64.powf(r.uniform(-300.0, -80.0)),
        0 => 0.0,
        1 => 2.0,
        2 => -r.uniform(0.0, 10.0),
        3 => r.logu(1.0) * 1e4,
        4 => r.logu(1.0) * 1e-4,
        5 => r.small_int(10),
        _ => r.mixed(3.0),
    };
    let y = match r.below(5) {
        0 => 0.0,
        1 => 5.0,
        2 => r.logu(8.0),
        _ => r.mixed(3.0),
    };
    Knot { x, y }
}

macro_rules! integ_one {
    ($m:expr, $sink:expr, $r:expr, $t:ident) => {{
        let m: &mut Mon = $m;
        let r: &mut Rng = $r;
        let k = knot(r);
        let (a, _) = arg_poly(r);
        let (b, _) = arg_poly(r);
        let (c, cc) = coeff_vec(r, <$t as Nums>::LEN, k.x);
        let p = <$t>::from_nums(&c);
        m.eval();
        m.count(&format!("integral:{}", <$t as Nums>::NAME));
        m.count(&format!("coeffs:{}", cc));
        if k.x == 0.0 { m.count("knot_x_zero"); }
        if k.x < 0.0 { m.count("knot_x_negative"); }
        let hh = hash_bits(7, c.iter().map(|e| e.to_bits()).chain([k.x.to_bits(), k.y.to_bits(), a.to_bits(), b.to_bits(), <$t as Nums>::LEN as u64]));
        let res = guard(|| {
            let ind = p.indefinite();
            let f = p.integral(k);
            let d = f.derivative();
            (ind.nums(), f.nums(), d.nums(), f.evaluate(k.x), f.evaluate(a), f.evaluate(b), ind.evaluate(a), ind.evaluate(b))
        });
        match res {
            Err(pn) => m.panic("integral panic", &pn, || json!({"form": <$t as Nums>::NAME, "c": hxs(&c), "knot": [hx(k.x), hx(k.y)]})),
            Ok((ind, f, d, fk, fa, fb, ia, ib)) => {
                $sink.emit(json!({"t": "int", "form": <$t as Nums>::NAME, "c": hs(&c), "kx": h(k.x), "ky": h(k.y), "a": h(a), "b": h(b),
                    "ind": hs(&ind), "F": hs(&f), "dF": hs(&d), "Fk": h(fk), "Fa": h(fa), "Fb": h(fb), "Ia": h(ia), "Ib": h(ib), "h": hh, "cc": cc}));
                // Segment<T>: breakpoint unchanged (bits); its integral is judged by the same oracle as the piece's own
                // (the property fixes the result only up to rounding, so no bit-comparison with the piece's integral)
                let seg = Segment { end: a, poly: p };
                match guard(|| {
                    let si = seg.integral(k);
                    let sn = seg.indefinite();
                    let d = si.poly.derivative();
                    (si.end, sn.end, sn.poly.nums(), si.poly.nums(), d.nums(), si.evaluate(k.x), si.evaluate(a), si.evaluate(b), sn.evaluate(a), sn.evaluate(b))
                }) {
                    Err(pn) => m.panic("Segment integral panic", &pn, || json!({"form": <$t as Nums>::NAME})),
                    Ok((e1, e2, ind, f, d, fk, fa, fb, ia, ib)) => {
                        m.count("segment_integral_checked");
                        if e1.to_bits() != a.to_bits() || e2.to_bits() != a.to_bits() {
                            m.violation("Segment integral changes the breakpoint", || json!({"form": <$t as Nums>::NAME, "end": hx(a), "observed": hx(e1)}));
                        }
                        $sink.emit(json!({"t": "int", "via": "Segment", "form": <$t as Nums>::NAME, "c": hs(&c), "kx": h(k.x), "ky": h(k.y), "a": h(a), "b": h(b),
                            "ind": hs(&ind), "F": hs(&f), "dF": hs(&d), "Fk": h(fk), "Fa": h(fa), "Fb": h(fb), "Ia": h(ia), "Ib": h(ib), "h": hh ^ 1, "cc": cc}));
                    }
                }
            }
        }
    }};
}

fn canaries07(sink: &mut Sink) {
    // p = 1 + 2x + 3x^2, knot (2,5): F = 5 - 14 + x + x^2 + x^3 = -9 + x + x^2 + x^3
    let c = [1.0, 2.0, 3.0];
    let base = |f: [f64; 4], ind: [f64; 4], d: [f64; 3], fk: f64| {
        let ev = |q: &[f64; 4], x: f64| q[0] + q[1] * x + q[2] * x * x + q[3] * x * x * x;
        json!({"t": "int", "canary": true, "form": "Poly2", "c": hs(&c), "kx": h(2.0), "ky": h(5.0), "a": h(0.5), "b": h(3.0),
            "ind": hs(&ind), "F": hs(&f), "dF": hs(&d), "Fk": h(fk), "Fa": h(ev(&f, 0.5)), "Fb": h(ev(&f, 3.0)), "Ia": h(ev(&ind, 0.5)), "Ib": h(ev(&ind, 3.0)), "h": 0, "cc": "canary"})
    };
    sink.emit(base([-9.0, 1.0, 1.0, 1.5], [0.0, 1.0, 1.0, 1.5], [1.0, 2.0, 4.5], 5.0)); // c2/2 instead of c2/3
    sink.emit(base([-8.0, 1.0, 1.0, 1.0], [0.0, 1.0, 1.0, 1.0], [1.0, 2.0, 3.0], 6.0)); // does not pass through the knot
    sink.emit(base([-9.0, 1.0, 1.0, 1.0], [1.0, 1.0, 1.0, 1.0], [1.0, 2.0, 3.0], 5.0)); // indefinite with non-zero constant
    sink.emit(base([-9.0, 1.0, 1.0, 1.0], [0.0, 1.0, 1.0, 1.0], [1.0, 2.0, 3.000000000000001], 5.0));
}

pub const FLOORS07: &[&str] = &["integral:Poly0", "integral:Poly7", "knot_x_zero", "knot_x_negative", "segment_integral_checked", "coeffs:one_hot", "coeffs:cancelling"];

pub fn drive07(a: &Args, m: &mut Mon, sink: &mut Sink) {
    m.floors(FLOORS07);
    canaries07(sink);
    m.canaries_fed += 4;
    let mut r = Rng::lane(a.seed, "C07", a.shard, 0);
    let n = a.n(12_000, 600_000);
    for _ in 0..n {
        macro_rules! per {
            ($t:ident) => {
                integ_one!(m, sink, &mut r, $t);
            };
        }
        ppv::for_polys_to7!(per);
    }
}

// ------------------------------------------------------------------------------------------ C08

macro_rules! deriv_one {
    ($m:expr, $sink:expr, $r:expr, $t:ident) => {{
        let m: &mut Mon = $m;
        let r: &mut Rng = $r;
        let (x, _) = arg_poly(r);
        let (c, cc) = coeff_vec(r, <$t as Nums>::LEN, x);
        let p = <$t>::from_nums(&c);
        m.eval();
        m.count(&format!("derivative:{}", <$t as Nums>::NAME));
        let hh = hash_bits(8, c.iter().map(|e| e.to_bits()).chain([x.to_bits(), <$t as Nums>::LEN as u64]));
        match guard(|| {
            let d = p.derivative();
            (d.nums(), d.evaluate(x))
        }) {
            Err(pn) => m.panic("derivative panic", &pn, || json!({"form": <$t as Nums>::NAME, "c": hxs(&c)})),
            Ok((d, dv)) => {
                $sink.emit(json!({"t": "der", "form": <$t as Nums>::NAME, "c": hs(&c), "x": h(x), "D": hs(&d), "Dx": h(dv), "h": hh, "cc": cc}));
            }
        }
    }};
}

/// structure with real pieces: same count, order, end bits; pieces bit-equal to piece.derivative()
macro_rules! deriv_struct {
    ($m:expr, $r:expr, $t:ty) => {{
        let m: &mut Mon = $m;
        let r: &mut Rng = $r;
        let n = match r.below(16) { 0 | 1 => 1, 2..=11 => r.usize(2, 8), 15 => r.usize(300, 3000), _ => r.usize(9, 60) };
        let (ends, _c) = gen_ends_any(r, n);
        let mut coeffs: Vec<Vec<f64>> = (0..ends.len()).map(|_| (0..<$t as Nums>::LEN).map(|_| r.mixed(4.0)).collect()).collect();
        repeat_some_pieces(r, &mut coeffs);
        if coeffs.windows(2).any(|w| w[0] == w[1]) {
            m.count("identical_neighbouring_pieces");
        }
        let pw: Piecewise<$t> = pw_from(&ends, &coeffs);
        m.eval();
        m.case(hash_bits(81, pw_nums(&pw).iter().map(|e| e.to_bits()).chain([<$t as Nums>::LEN as u64])));
        m.count(&format!("piecewise_derivative:{}", <$t as Nums>::NAME));
        match guard(|| pw.derivative()) {
            Err(pn) => m.panic("Piecewise derivative panic", &pn, || json!({"form": <$t as Nums>::NAME})),
            Ok(d) => {
                if d.segments.len() != pw.segments.len() {
                    m.violation("Piecewise derivative changes the number of pieces", || json!({"form": <$t as Nums>::NAME, "in": pw.segments.len(), "out": d.segments.len()}));
                } else {
                    for i in 0..pw.segments.len() {
                        let alone = pw.segments[i].poly.derivative().nums();
                        if d.segments[i].end.to_bits() != pw.segments[i].end.to_bits() {
                            m.violation("Piecewise derivative changes a breakpoint", || json!({"form": <$t as Nums>::NAME, "i": i, "end": hx(pw.segments[i].end), "observed": hx(d.segments[i].end)}));
                            break;
                        }
                        if !all_bits_eq(&d.segments[i].poly.nums(), &alone) {
                            m.violation("Piecewise derivative piece differs from the piece's own derivative", || json!({"form": <$t as Nums>::NAME, "i": i,
                                "piece": hxs(&pw.segments[i].poly.nums()), "observed": hxs(&d.segments[i].poly.nums()), "expected": hxs(&alone)}));
                            break;
                        }
                    }
                }
            }
        }
        let seg = pw.segments[0];
        match guard(|| seg.derivative()) {
            Err(pn) => m.panic("Segment derivative panic", &pn, || json!({"form": <$t as Nums>::NAME})),
            Ok(d) => {
                m.count("segment_derivative_checked");
                if d.end.to_bits() != seg.end.to_bits() || !all_bits_eq(&d.poly.nums(), &seg.poly.derivative().nums()) {
                    m.violation("Segment derivative changes the breakpoint or the piece", || json!({"form": <$t as Nums>::NAME, "end": hx(seg.end), "observed_end": hx(d.end)}));
                }
            }
        }
    }};
}

pub fn check_tr_derivative(m: &mut Mon, ends: &[f64], res: &Piecewise<TrD>, log: &[TrEvent]) {
    m.eval();
    if res.segments.len() != ends.len() {
        m.violation("Piecewise derivative changes the number of pieces (probe)", || json!({"ends": hxs(ends), "out": res.segments.len()}));
        return;
    }
    for (i, s) in res.segments.iter().enumerate() {
        if s.end.to_bits() != ends[i].to_bits() {
            m.violation("Piecewise derivative changes a breakpoint (probe)", || json!({"ends": hxs(ends), "i": i, "observed": hx(s.end)}));
            return;
        }
        if s.poly.id != i as u32 {
            m.violation("Piecewise derivative reorders pieces (probe)", || json!({"ends": hxs(ends), "i": i, "observed_id": s.poly.id}));
            return;
        }
    }
    // every piece differentiated (at least once)
    for i in 0..ends.len() {
        if !log.iter().any(|e| *e == TrEvent::Derivative(i as u32)) {
            m.violation("Piecewise derivative does not differentiate a piece (probe)", || json!({"ends": hxs(ends), "i": i}));
            return;
        }
    }
}

fn canaries08(m: &mut Mon, sink: &mut Sink) {
    let c = [1.0, 2.0, 3.0, 4.0];
    let mk = |d: [f64; 3], dx: f64| json!({"t": "der", "canary": true, "form": "Poly3", "c": hs(&c), "x": h(2.0), "D": hs(&d), "Dx": h(dx), "h": 0, "cc": "canary"});
    sink.emit(mk([2.0, 6.0, 8.0], 2.0 + 12.0 + 32.0)); // 2*c3 instead of 3*c3
    sink.emit(mk([2.0, 6.0, 12.0], 63.0)); // value wrong (truth 62)
    sink.emit(mk([2.0, 6.000000000000002, 12.0], 62.0)); // exact factor 2 must be exact
    sink.emit(json!({"t": "der", "canary": true, "form": "Poly0", "c": hs(&[3.0]), "x": h(2.0), "D": hs(&[1.0]), "Dx": h(1.0), "h": 0, "cc": "canary"}));
    m.canaries_fed += 4;
    let ends = [1.0, 2.0, 3.0];
    let good = |ids: [u32; 3], e: [f64; 3]| Piecewise { segments: (0..3).map(|i| Segment { end: e[i], poly: TrD { id: ids[i] } }).collect::<Vec<_>>() };
    let log: Vec<TrEvent> = (0..3).map(TrEvent::Derivative).collect();
    m.canary(|m| check_tr_derivative(m, &ends, &good([0, 2, 1], ends), &log));
    m.canary(|m| check_tr_derivative(m, &ends, &good([0, 1, 2], [1.0, 2.5, 3.0]), &log));
    m.canary(|m| check_tr_derivative(m, &ends, &good([0, 1, 2], ends), &log[..2]));
}

pub const FLOORS08: &[&str] = &["derivative:Poly0", "derivative:Poly8", "piecewise_derivative:Poly8", "piecewise_derivative:Poly0", "segment_derivative_checked", "probe_functions", "exact_factor", "rounded_factor", "identical_neighbouring_pieces", "probe_functions_with_infinite_ends"];

pub fn drive08(a: &Args, m: &mut Mon, sink: &mut Sink) {
    m.floors(FLOORS08);
    canaries08(m, sink);
    let mut r = Rng::lane(a.seed, "C08", a.shard, 0);
    let n = a.n(25_000, 3_000_000);
    for k in 0..n {
        macro_rules! per {
            ($t:ident) => {
                deriv_one!(m, sink, &mut r, $t);
                if k % 4 == 0 {
                    deriv_struct!(m, &mut r, $t);
                }
            };
        }
        ppv::for_polys!(per);
        // probe pieces
        let nn = match r.below(8) { 0 => 1, _ => r.usize(2, 40) };
        let (mut ends, _c) = gen_ends_any(&mut r, nn);
        if r.below(6) == 0 && infinite_tails(&mut r, &mut ends) {
            m.count("probe_functions_with_infinite_ends");
        }
        let pw = tr_pw(&ends);
        tr_log_take();
        m.count("probe_functions");
        m.case(hash_bits(82, ends.iter().map(|e| e.to_bits())));
        match guard(|| pw.derivative()) {
            Err(pn) => m.panic("Piecewise derivative panic (probe)", &pn, || json!({"ends": hxs(&ends)})),
            Ok(d) => {
                let log = tr_log_take();
                check_tr_derivative(m, &ends, &d, &log);
            }
        }
    }
}
