//! C01 — evaluation of Poly0..8, PolyN and Log<Poly0..8> (driver: records events; the exact /
//! 400-bit oracle is oracles/c01.py).

use ppv::events::*;
use ppv::flat::*;
use ppv::gen::*;
use ppv::polygen::*;
use ppv::mon::*;
use piecewise_polynomial::*;
use serde_json::json;

/// Calls whose results are discarded, made immediately before the observed evaluation on the same thread: other forms
/// at the bit-identical argument (the integral forms of log-polynomials, a log-polynomial of another degree) and a
/// sibling of the observed polynomial that differs only in its high-order coefficients. Whatever the library remembers
/// between calls (per-thread memos keyed on the argument or on part of the coefficients) is primed by them.
fn prime<T: Nums + Evaluate>(m: &mut Mon, r: &mut Rng, c: &[f64], x: f64, log: bool) {
    m.count("primed_by_related_calls_at_same_argument");
    let c = c.to_vec();
    let kind = r.below(4);
    let w: Vec<f64> = (0..5).map(|_| r.mixed(2.0)).collect();
    let nhi = r.usize(1, (T::LEN / 2).max(1));
    let bump = r.mixed(2.0);
    let _ = guard(move || {
        if log && kind != 3 {
            let k = Knot { x, y: w[0] };
            match kind {
                0 => { Log(Poly4::from_nums(&w)).integral(k).evaluate(x); }
                1 => { Log(Poly2::from_nums(&w[..3])).integral(k).evaluate(x); }
                _ => { Log(Poly3::from_nums(&w[..4])).evaluate(x); }
            }
        } else {
            let mut s = c.clone();
            let n = s.len();
            for v in s[n - nhi.min(n)..].iter_mut() {
                *v = if *v == 0.0 { bump } else { -*v };
            }
            T::from_nums(&s).evaluate(x);
        }
    });
}

fn one<T: Nums + Evaluate + Send + 'static>(m: &mut Mon, sink: &mut Sink, r: &mut Rng, log: bool) {
    let (x, xc) = if log { arg_log(r) } else { arg_poly(r) };
    let (c, cc) = coeff_vec(r, T::LEN, if log { x.ln() } else { x });
    let p = T::from_nums(&c);
    if r.below(8) == 0 {
        prime::<T>(m, r, &c, x, log);
    }
    m.eval();
    m.count(&format!("form:{}", T::NAME));
    m.count(&format!("coeffs:{}", cc));
    m.count(&format!("arg:{}", xc));
    let hh = hash_bits(1, c.iter().map(|e| e.to_bits()).chain([x.to_bits(), T::LEN as u64, log as u64]));
    // 1 in 16: the evaluation is the first thing a brand-new thread does (state kept per thread, lazily initialised
    // tables or memos start pristine there)
    let fresh = r.below(16) == 0;
    let res = if fresh {
        m.count("evaluated_on_fresh_thread");
        let q = p.clone();
        guard(move || std::thread::spawn(move || q.evaluate(x)).join().map_err(|_| ()).expect("library panic on a fresh thread"))
    } else {
        guard(|| p.evaluate(x))
    };
    match res {
        Err(pn) => m.panic("evaluate panic", &pn, || json!({"form": T::NAME, "c": hxs(&c), "x": hx(x)})),
        Ok(v) => sink.emit(json!({"t": "ev", "form": T::NAME, "log": log, "c": hs(&c), "x": h(x), "r": h(v), "h": hh, "cc": cc, "xc": xc})),
    }
}

fn polyn(m: &mut Mon, sink: &mut Sink, r: &mut Rng) {
    let len = match r.below(8) {
        0 => 0,
        1 => 1,
        _ => r.usize(2, 12),
    };
    let (x, xc) = arg_poly(r);
    let (c, cc) = if len == 0 { (vec![], "empty") } else { coeff_vec(r, len, x) };
    m.eval();
    m.count("form:PolyN");
    m.count(&format!("polyn_len:{}", len));
    m.count(&format!("coeffs:{}", cc));
    let p = PolyN(c.clone());
    if len >= 2 && r.below(4) == 0 {
        // the same length and argument, only the high-order coefficients differ, evaluated just before
        m.count("polyn_primed_by_sibling_with_other_high_coefficients");
        let mut s = c.clone();
        let nhi = r.usize(1, len / 2);
        for v in s[len - nhi..].iter_mut() {
            *v = if *v == 0.0 { 1.5 } else { -*v };
        }
        let q = PolyN(s);
        let _ = guard(|| q.evaluate(x));
    }
    let hh = hash_bits(10, c.iter().map(|e| e.to_bits()).chain([x.to_bits(), len as u64]));
    match guard(|| p.evaluate(x)) {
        Err(pn) => m.panic("PolyN evaluate panic", &pn, || json!({"c": hxs(&c), "x": hx(x)})),
        Ok(v) => sink.emit(json!({"t": "ev", "form": "PolyN", "log": false, "c": hs(&c), "x": h(x), "r": h(v), "h": hh, "cc": cc, "xc": xc})),
    }
}

fn canaries(sink: &mut Sink) {
    // corrupted observations made by the adapter, not by the library; the oracle must flag all of them
    let c = [1.0, 2.0, 3.0, 4.0];
    let x = 1.5;
    let truth = 1.0 + 2.0 * 1.5 + 3.0 * 2.25 + 4.0 * 3.375;
    sink.emit(json!({"t": "ev", "canary": true, "form": "Poly3", "log": false, "c": hs(&c), "x": h(x), "r": h(truth + 1.0), "h": 0, "cc": "canary", "xc": "canary"}));
    sink.emit(json!({"t": "ev", "canary": true, "form": "Poly3", "log": false, "c": hs(&c), "x": h(x), "r": h(f64::from_bits(truth.to_bits() + 1)), "h": 0, "cc": "canary", "xc": "canary"}));
    // inexact case: value off by 100 x the bound
    let c2 = [0.1, 0.7, -0.3];
    let x2 = 0.37;
    let t2 = 0.1 + 0.7 * 0.37 - 0.3 * 0.37 * 0.37;
    sink.emit(json!({"t": "ev", "canary": true, "form": "Poly2", "log": false, "c": hs(&c2), "x": h(x2), "r": h(t2 * (1.0 + 1e-13)), "h": 0, "cc": "canary", "xc": "canary"}));
    let l = (7.0f64).ln();
    sink.emit(json!({"t": "ev", "canary": true, "form": "Log<Poly1>", "log": true, "c": hs(&[1.0, 2.0]), "x": h(7.0), "r": h((1.0 + 2.0 * l) * (1.0 + 1e-12)), "h": 0, "cc": "canary", "xc": "canary"}));
    sink.emit(json!({"t": "ev", "canary": true, "form": "PolyN", "log": false, "c": hs(&[]), "x": h(2.0), "r": h(1e-300), "h": 0, "cc": "canary", "xc": "canary"}));
}

/// Concurrent lane (see ppv::conc): evaluations of all forms issued from four threads at the same moment; every
/// distinct value a call ever returned is an ordinary event for the oracle.
struct CMeta {
    form: &'static str,
    log: bool,
    c: Vec<f64>,
    x: f64,
    cc: &'static str,
    xc: &'static str,
}

fn conc_one<T: Nums + Evaluate + Send + Sync + 'static>(r: &mut Rng, log: bool, jobs: &mut Vec<ppv::conc::Job>, meta: &mut Vec<CMeta>) {
    let (x, xc) = if log { arg_log(r) } else { arg_poly(r) };
    let (c, cc) = coeff_vec(r, T::LEN, if log { x.ln() } else { x });
    let p = T::from_nums(&c);
    jobs.push(Box::new(move || vec![p.evaluate(x)]));
    meta.push(CMeta { form: T::NAME, log, c, x, cc, xc });
}

fn concurrent_phase(a: &Args, m: &mut Mon, sink: &mut Sink) {
    let mut r = Rng::lane(a.seed, "C01", a.shard, 7);
    let n = a.n(6_000, 600_000);
    let mut jobs: Vec<ppv::conc::Job> = Vec::new();
    let mut meta: Vec<CMeta> = Vec::new();
    while (jobs.len() as u64) < n {
        macro_rules! per {
            ($t:ident) => {
                conc_one::<$t>(&mut r, false, &mut jobs, &mut meta);
                conc_one::<Log<$t>>(&mut r, true, &mut jobs, &mut meta);
            };
        }
        ppv::for_polys!(per);
        let len = r.usize(0, 12);
        let (x, xc) = arg_poly(&mut r);
        let (c, cc) = if len == 0 { (vec![], "empty") } else { coeff_vec(&mut r, len, x) };
        let p = PolyN(c.clone());
        jobs.push(Box::new(move || vec![p.evaluate(x)]));
        meta.push(CMeta { form: "PolyN", log: false, c, x, cc, xc });
    }
    match ppv::conc::run(&jobs, 4, if a.thorough() { 400 } else { 150 }, 4) {
        Err(pn) => m.panic("evaluate panic (concurrent lane)", &pn, || json!({"lane": "concurrent"})),
        Ok((res, st)) => {
            m.add("concurrent_calls", st.calls);
            m.add("concurrent_jobs", jobs.len() as u64);
            m.add("concurrent_jobs_with_more_than_one_result", st.jobs_with_more_than_one_result);
            m.extra.insert("max_concurrent_rounds".into(), json!(st.rounds_min));
            for (e, vals) in meta.iter().zip(res) {
                for (k, bits) in vals.iter().enumerate() {
                    m.eval();
                    m.count("evaluated_concurrently");
                    let hh = hash_bits(77, e.c.iter().map(|v| v.to_bits()).chain([e.x.to_bits(), e.c.len() as u64, e.log as u64, k as u64]));
                    sink.emit(json!({"t": "ev", "form": e.form, "log": e.log, "c": hs(&e.c), "x": h(e.x), "r": h(f64::from_bits(bits[0])), "h": hh, "cc": e.cc, "xc": e.xc}));
                }
            }
        }
    }
}

pub const FLOORS: &[&str] = &[
    "exact_class", "bounded_class", "form:PolyN", "polyn_len:0", "form:Poly0", "form:Poly8", "form:Log<Poly0>", "form:Log<Poly8>",
    "coeffs:one_hot", "coeffs:cancelling", "coeffs:alternating", "arg:negative", "arg:fractional", "arg:large", "arg:small", "arg:zero",
    "arg:v_ulps_of_one", "arg:v_in_0_1", "arg:v_huge", "arg:v_tiny", "arg:v_subnormal", "evaluated_on_fresh_thread",
    "evaluated_concurrently", "primed_by_related_calls_at_same_argument", "polyn_primed_by_sibling_with_other_high_coefficients",
];

pub fn drive(a: &Args, m: &mut Mon, sink: &mut Sink) {
    m.floors(FLOORS);
    canaries(sink);
    m.canaries_fed += 5;
    let mut r = Rng::lane(a.seed, "C01", a.shard, 0);
    let n = a.n(16_000, 1_600_000);
    for _ in 0..n {
        macro_rules! per {
            ($t:ident) => {
                one::<$t>(m, sink, &mut r, false);
                one::<Log<$t>>(m, sink, &mut r, true);
            };
        }
        ppv::for_polys!(per);
        polyn(m, sink, &mut r);
    }
    concurrent_phase(a, m, sink);
}
