//! C15 — scalar operations on segments and piecewise functions preserve breakpoints and apply
//! the operation to every piece exactly as to the function alone.

use ppv::flat::*;
use ppv::gen::*;
use ppv::mon::*;
use ppv::probe::*;
use piecewise_polynomial::*;
use serde_json::json;

#[derive(Clone, Copy, Debug, PartialEq)]
pub enum Op {
    Mul(f64),
    MulAssign(f64),
    MulAssignRef(f64),
    Neg,
    Translate(f64),
}
impl Op {
    fn name(&self) -> &'static str {
        match self {
            Op::Mul(_) => "mul",
            Op::MulAssign(_) => "mul_assign",
            Op::MulAssignRef(_) => "mul_assign_ref",
            Op::Neg => "neg",
            Op::Translate(_) => "translate",
        }
    }
}

fn scalar(r: &mut Rng) -> f64 {
    if r.chance(0.08) {
        // one or two ulps beside a "special" scalar: shortcuts keyed on s == 1, -1, 2 ... with a tolerance show here
        let c = r.pick(&[1.0, -1.0, 2.0, 0.5, -2.0]);
        return ulps(c, r.pick(&[-2i64, -1, 1, 2]));
    }
    match r.below(10) {
        0 => 0.0,
        1 => -1.0,
        2 => 1.0,
        3 => -0.0,
        4 => f64::MIN_POSITIVE * r.uniform(0.5, 4.0),
        5 => 1e300 * r.sign(),
        6 => 2.0,
        _ => r.mixed(6.0),
    }
}

/// recorded operations accepted as "exactly this one operation, with this scalar"
fn rec_matches(rec: &Rec, op: Op) -> bool {
    if rec.n != 1 {
        return false;
    }
    let (k, b) = rec.ops[0];
    match op {
        Op::Mul(s) | Op::MulAssign(s) | Op::MulAssignRef(s) => (k == b'*' || k == b'=') && b == s.to_bits(),
        Op::Neg => k == b'n' || ((k == b'*' || k == b'=') && b == (-1.0f64).to_bits()),
        Op::Translate(v) => k == b't' && b == v.to_bits(),
    }
}

pub fn check_rec(m: &mut Mon, what: &str, op: Op, ends: &[f64], res: &[Segment<Rec>]) {
    m.eval();
    let sig = |s: &str| format!("{} {} {}", what, op.name(), s);
    if res.len() != ends.len() {
        m.violation(&sig("changes the number of pieces"), || json!({"ends": hxs(ends), "result_len": res.len()}));
        return;
    }
    for (i, s) in res.iter().enumerate() {
        if s.end.to_bits() != ends[i].to_bits() {
            m.violation(&sig("changes a breakpoint"), || json!({"ends": hxs(ends), "i": i, "observed_end": hx(s.end), "op": format!("{:?}", op)}));
            return;
        }
        if s.poly.id != i as u32 {
            m.violation(&sig("reorders or replaces pieces"), || json!({"ends": hxs(ends), "i": i, "observed_id": s.poly.id}));
            return;
        }
        if !rec_matches(&s.poly, op) {
            m.violation(&sig("does not apply exactly the one operation to a piece"), || {
                json!({"ends": hxs(ends), "i": i, "op": format!("{:?}", op), "recorded": format!("{:?}", &s.poly.ops[..(s.poly.n.min(4)) as usize]), "n_recorded": s.poly.n})
            });
            return;
        }
    }
}

fn rec_workload(m: &mut Mon, r: &mut Rng, ends: &[f64]) {
    let s = scalar(r);
    let v = scalar(r);
    m.case(hash_bits(15, ends.iter().map(|e| e.to_bits()).chain([s.to_bits(), v.to_bits()])));
    let base = rec_pw(ends);
    // Piecewise level
    match guard(|| dup(&base) * s) {
        Ok(p) => check_rec(m, "Piecewise", Op::Mul(s), ends, &p.segments),
        Err(p) => m.panic("Piecewise mul panic", &p, || json!({"ends": hxs(ends)})),
    }
    match guard(|| {
        let mut p = dup(&base);
        p *= s;
        p
    }) {
        Ok(p) => check_rec(m, "Piecewise", Op::MulAssign(s), ends, &p.segments),
        Err(p) => m.panic("Piecewise mul_assign panic", &p, || json!({"ends": hxs(ends)})),
    }
    match guard(|| -(dup(&base))) {
        Ok(p) => check_rec(m, "Piecewise", Op::Neg, ends, &p.segments),
        Err(p) => m.panic("Piecewise neg panic", &p, || json!({"ends": hxs(ends)})),
    }
    match guard(|| {
        let mut p = dup(&base);
        p.translate(v);
        p
    }) {
        Ok(p) => check_rec(m, "Piecewise", Op::Translate(v), ends, &p.segments),
        Err(p) => m.panic("Piecewise translate panic", &p, || json!({"ends": hxs(ends)})),
    }
    // Segment level: one segment at a time (use the first few)
    for (i, seg) in base.segments.iter().enumerate().take(3) {
        let e = [seg.end];
        let fix = |mut s: Segment<Rec>| {
            s.poly.id = 0;
            s
        };
        let seg0 = {
            let mut s = *seg;
            s.poly.id = 0;
            s
        };
        let _ = i;
        match guard(|| seg0 * s) {
            Ok(x) => check_rec(m, "Segment", Op::Mul(s), &e, &[fix(x)]),
            Err(p) => m.panic("Segment mul panic", &p, || json!({})),
        }
        match guard(|| {
            let mut x = seg0;
            x *= s;
            x
        }) {
            Ok(x) => check_rec(m, "Segment", Op::MulAssign(s), &e, &[x]),
            Err(p) => m.panic("Segment mul_assign panic", &p, || json!({})),
        }
        match guard(|| {
            let mut x = seg0;
            {
                let mut rf = &mut x;
                rf *= s;
            }
            x
        }) {
            Ok(x) => check_rec(m, "Segment", Op::MulAssignRef(s), &e, &[x]),
            Err(p) => m.panic("&mut Segment mul_assign panic", &p, || json!({})),
        }
        match guard(|| {
            let mut x = seg0;
            x.translate(v);
            x
        }) {
            Ok(x) => check_rec(m, "Segment", Op::Translate(v), &e, &[x]),
            Err(p) => m.panic("Segment translate panic", &p, || json!({})),
        }
    }
    m.sample("rec", 2, || json!({"ends": ends.iter().take(10).collect::<Vec<_>>(), "scalar": s, "translate": v}));
}

/// compare result pieces (real type) with the operation applied to each piece alone
fn check_real<T: Nums>(m: &mut Mon, what: &str, opname: &str, orig: &Piecewise<T>, res: &Piecewise<T>, alone: &[T]) -> bool {
    m.eval();
    m.count(&format!("real:{}:{}:{}", what, opname, T::NAME));
    if res.segments.len() != orig.segments.len() {
        m.violation(&format!("{} {} changes the number of pieces (real)", what, opname), || json!({"type": T::NAME}));
        return false;
    }
    for i in 0..orig.segments.len() {
        if res.segments[i].end.to_bits() != orig.segments[i].end.to_bits() {
            m.violation(&format!("{} {} changes a breakpoint (real)", what, opname), || {
                json!({"type": T::NAME, "i": i, "end": hx(orig.segments[i].end), "observed": hx(res.segments[i].end)})
            });
            return false;
        }
        let got = res.segments[i].poly.nums();
        let exp = alone[i].nums();
        if !all_bits_eq(&got, &exp) {
            m.violation(&format!("{} {} piece differs from the operation applied to the function alone", what, opname), || {
                json!({"type": T::NAME, "i": i, "n_pieces": orig.segments.len(), "original": hxs(&orig.segments[i].poly.nums()), "observed": hxs(&got), "expected": hxs(&exp)})
            });
            return false;
        }
    }
    true
}

fn gen_real<T: Nums>(r: &mut Rng, positive: bool) -> Piecewise<T> {
    let n = match r.below(8) {
        0 => 1,
        1..=5 => r.usize(2, 8),
        _ => r.usize(9, 40),
    };
    let ends = if positive {
        let c = r.pick(&[EndsClass::Positive, EndsClass::Bench]);
        gen_ends(r, n, c)
    } else {
        gen_ends_any(r, n).0
    };
    let mut coeffs: Vec<Vec<f64>> = (0..ends.len())
        .map(|_| (0..T::LEN).map(|_| if r.chance(0.1) { 0.0 } else { r.mixed(4.0) }).collect())
        .collect();
    repeat_some_pieces(r, &mut coeffs);
    pw_from(&ends, &coeffs)
}

/// value level for plain polynomials: on both sides of every breakpoint
fn value_level<T: Nums + Evaluate>(m: &mut Mon, opname: &str, orig: &Piecewise<T>, res: &Piecewise<T>, f: impl Fn(f64) -> f64, s_abs: f64, add_abs: f64) {
    let n = T::LEN as f64;
    for seg in &orig.segments {
        for x in [seg.end.next_down(), seg.end, seg.end.next_up()] {
            if !x.is_finite() {
                continue;
            }
            let i = sel(&pw_ends(orig), x);
            let c = orig.segments[i].poly.nums();
            let mut a = 0.0;
            let mut p = 1.0;
            let mut okdom = true;
            for ci in &c {
                let t = ci.abs() * p;
                if *ci != 0.0 && !((1e-280..1e280).contains(&t) && (1e-280..1e280).contains(&p) && (1e-280..1e280).contains(&ci.abs())) {
                    // a partial term (or the power itself) overflows / underflows: outside the property's domain
                    okdom = false;
                }
                let t2 = ci.abs() * s_abs;
                if *ci != 0.0 && s_abs != 0.0 && !((1e-280..1e280).contains(&t2) && (1e-280..1e280).contains(&(t * s_abs))) {
                    // the scaled coefficient or the scaled term leaves the normal range
                    okdom = false;
                }
                a += t;
                p *= x.abs();
            }
            let scaled = a * s_abs;
            if !okdom || !scaled.is_finite() || (scaled != 0.0 && scaled < 1e-280) || (s_abs != 0.0 && s_abs < 1e-280) {
                m.count("value_level_out_of_domain");
                continue;
            }
            let want = f(orig.evaluate(x));
            let got = res.evaluate(x);
            let tol = 16.0 * (n + 3.0) * f64::EPSILON * 0.5 * (scaled + add_abs + a);
            m.count("value_level_checks");
            let dev = (got - want).abs();
            if tol > 0.0 {
                let rr = dev / tol;
                m.ratio(rr, || json!({"type": T::NAME, "op": opname, "x": hx(x)}));
            }
            if !(dev <= tol) {
                m.violation(&format!("Piecewise {} value differs from the pointwise operation", opname), || {
                    json!({"type": T::NAME, "x": hx(x), "coeffs": hxs(&c), "observed": hx(got), "expected": hx(want), "tol": tol})
                });
                return;
            }
        }
    }
}

/// translate(+-inf) must raise the value to +-inf wherever the function is finite (no tolerance involved)
fn nonfinite_translate<T: Nums + Evaluate + Translate + Clone>(m: &mut Mon, pw: &Piecewise<T>, name: &str, positive: bool) {
    for c in [f64::INFINITY, f64::NEG_INFINITY] {
        let mut q = dup(&pw);
        if guard(|| q.translate(c)).is_err() {
            m.panic("Piecewise translate panic (non-finite scalar)", "panic", || json!({"type": name}));
            return;
        }
        for seg in pw.segments.iter().take(4) {
            let x = if seg.end.is_finite() { seg.end } else { 1.0 };
            if positive && !(x > 0.0) {
                continue;
            }
            let before = pw.evaluate(x);
            if !before.is_finite() {
                continue;
            }
            m.count("nonfinite_translate_checked");
            let after = q.evaluate(x);
            if after != c {
                m.violation("Piecewise translate by an infinite scalar does not add it", || json!({"type": name, "x": hx(x), "before": hx(before), "after": hx(after), "scalar": hx(c)}));
                return;
            }
        }
    }
}

macro_rules! real_full {
    // types with Mul, MulAssign, Neg, Translate, Copy
    ($m:expr, $r:expr, $t:ty, $pos:expr, $val:expr) => {{
        let m: &mut Mon = $m;
        let r: &mut Rng = $r;
        let pw: Piecewise<$t> = gen_real::<$t>(r, $pos);
        let s = scalar(r);
        let v = scalar(r);
        m.case(hash_bits(151, pw_nums(&pw).iter().map(|e| e.to_bits()).chain([s.to_bits(), v.to_bits(), <$t as Nums>::LEN as u64])));
        let alone: Vec<$t> = pw.segments.iter().map(|x| x.poly * s).collect();
        match guard(|| dup(&pw) * s) {
            Ok(res) => {
                if check_real(m, "Piecewise", "mul", &pw, &res, &alone) && $val {
                    value_level(m, "mul", &pw, &res, |y| s * y, s.abs(), 0.0);
                }
            }
            Err(p) => m.panic("Piecewise mul panic (real)", &p, || json!({"type": <$t as Nums>::NAME})),
        }
        let alone_a: Vec<$t> = pw.segments.iter().map(|x| { let mut q = x.poly; q *= s; q }).collect();
        match guard(|| { let mut q = dup(&pw); q *= s; q }) {
            Ok(res) => {
                check_real(m, "Piecewise", "mul_assign", &pw, &res, &alone_a);
                // `*=` and `*` are the same scaling: (f *= s) must be bit-identical to f * s
                m.count("mul_assign_vs_mul_compared");
                if let Ok(byval) = guard(|| dup(&pw) * s) {
                    if !all_bits_eq(&pw_nums(&res), &pw_nums(&byval)) {
                        m.violation("Piecewise *= differs from Piecewise * (same scalar)", || json!({"type": <$t as Nums>::NAME, "scalar": hx(s), "first_piece": hxs(&pw.segments[0].poly.nums()),
                            "mul_assign": hxs(&res.segments[0].poly.nums()), "mul": hxs(&byval.segments[0].poly.nums())}));
                    }
                }
            }
            Err(p) => m.panic("Piecewise mul_assign panic (real)", &p, || json!({"type": <$t as Nums>::NAME})),
        }
        let alone_n: Vec<$t> = pw.segments.iter().map(|x| -x.poly).collect();
        match guard(|| -(dup(&pw))) {
            Ok(res) => {
                if check_real(m, "Piecewise", "neg", &pw, &res, &alone_n) && $val {
                    value_level(m, "neg", &pw, &res, |y| -y, 1.0, 0.0);
                }
            }
            Err(p) => m.panic("Piecewise neg panic (real)", &p, || json!({"type": <$t as Nums>::NAME})),
        }
        let alone_t: Vec<$t> = pw.segments.iter().map(|x| { let mut q = x.poly; q.translate(v); q }).collect();
        match guard(|| { let mut q = dup(&pw); q.translate(v); q }) {
            Ok(res) => {
                if check_real(m, "Piecewise", "translate", &pw, &res, &alone_t) && $val {
                    value_level(m, "translate", &pw, &res, |y| y + v, 1.0, v.abs());
                }
                nonfinite_translate(m, &pw, <$t as Nums>::NAME, $pos);
            }
            Err(p) => m.panic("Piecewise translate panic (real)", &p, || json!({"type": <$t as Nums>::NAME})),
        }
        // Segment level on the first piece
        let seg = pw.segments[0];
        let one = Piecewise { segments: vec![seg] };
        if let Ok(x) = guard(|| seg * s) { check_real(m, "Segment", "mul", &one, &Piecewise { segments: vec![x] }, &alone[..1]); }
        if let Ok(x) = guard(|| { let mut q = seg; q *= s; q }) { check_real(m, "Segment", "mul_assign", &one, &Piecewise { segments: vec![x] }, &alone_a[..1]); }
        if let Ok(x) = guard(|| { let mut q = seg; { let mut rf = &mut q; rf *= s; } q }) { check_real(m, "Segment", "mul_assign_ref", &one, &Piecewise { segments: vec![x] }, &alone_a[..1]); }
        if let Ok(x) = guard(|| { let mut q = seg; q.translate(v); q }) { check_real(m, "Segment", "translate", &one, &Piecewise { segments: vec![x] }, &alone_t[..1]); }
    }};
}

macro_rules! real_log {
    // Log<T>: Mul, MulAssign, Translate
    ($m:expr, $r:expr, $t:ty) => {{
        let m: &mut Mon = $m;
        let r: &mut Rng = $r;
        let pw: Piecewise<Log<$t>> = gen_real::<Log<$t>>(r, true);
        let s = scalar(r);
        let v = scalar(r);
        m.case(hash_bits(152, pw_nums(&pw).iter().map(|e| e.to_bits()).chain([s.to_bits(), v.to_bits(), <$t as Nums>::LEN as u64])));
        let alone: Vec<Log<$t>> = pw.segments.iter().map(|x| x.poly * s).collect();
        match guard(|| dup(&pw) * s) {
            Ok(res) => { check_real(m, "Piecewise", "mul", &pw, &res, &alone); }
            Err(p) => m.panic("Piecewise mul panic (real)", &p, || json!({"type": <Log<$t> as Nums>::NAME})),
        }
        let alone_a: Vec<Log<$t>> = pw.segments.iter().map(|x| { let mut q = x.poly; q *= s; q }).collect();
        match guard(|| { let mut q = dup(&pw); q *= s; q }) {
            Ok(res) => { check_real(m, "Piecewise", "mul_assign", &pw, &res, &alone_a); }
            Err(p) => m.panic("Piecewise mul_assign panic (real)", &p, || json!({"type": <Log<$t> as Nums>::NAME})),
        }
        let alone_t: Vec<Log<$t>> = pw.segments.iter().map(|x| { let mut q = x.poly; q.translate(v); q }).collect();
        match guard(|| { let mut q = dup(&pw); q.translate(v); q }) {
            Ok(res) => { check_real(m, "Piecewise", "translate", &pw, &res, &alone_t); }
            Err(p) => m.panic("Piecewise translate panic (real)", &p, || json!({"type": <Log<$t> as Nums>::NAME})),
        }
    }};
}

fn real_quartic(m: &mut Mon, r: &mut Rng) {
    // IntOfLogPoly4: Mul, Neg, Translate (no MulAssign)
    let pw: Piecewise<IntOfLogPoly4> = gen_real::<IntOfLogPoly4>(r, true);
    let s = scalar(r);
    let v = scalar(r);
    m.case(hash_bits(153, pw_nums(&pw).iter().map(|e| e.to_bits()).chain([s.to_bits(), v.to_bits()])));
    let alone: Vec<IntOfLogPoly4> = pw.segments.iter().map(|x| x.poly * s).collect();
    match guard(|| dup(&pw) * s) {
        Ok(res) => {
            check_real(m, "Piecewise", "mul", &pw, &res, &alone);
        }
        Err(p) => m.panic("Piecewise mul panic (real)", &p, || json!({"type": "IntOfLogPoly4"})),
    }
    let alone_n: Vec<IntOfLogPoly4> = pw.segments.iter().map(|x| -x.poly).collect();
    match guard(|| -(dup(&pw))) {
        Ok(res) => {
            check_real(m, "Piecewise", "neg", &pw, &res, &alone_n);
        }
        Err(p) => m.panic("Piecewise neg panic (real)", &p, || json!({"type": "IntOfLogPoly4"})),
    }
    let alone_t: Vec<IntOfLogPoly4> = pw
        .segments
        .iter()
        .map(|x| {
            let mut q = x.poly;
            q.translate(v);
            q
        })
        .collect();
    match guard(|| {
        let mut q = dup(&pw);
        q.translate(v);
        q
    }) {
        Ok(res) => {
            check_real(m, "Piecewise", "translate", &pw, &res, &alone_t);
        }
        Err(p) => m.panic("Piecewise translate panic (real)", &p, || json!({"type": "IntOfLogPoly4"})),
    }
    let seg = pw.segments[0];
    let one = Piecewise { segments: vec![seg] };
    if let Ok(x) = guard(|| seg * s) {
        check_real(m, "Segment", "mul", &one, &Piecewise { segments: vec![x] }, &alone[..1]);
    }
}

pub fn canaries(m: &mut Mon) {
    let ends = [1.0, 2.0, 3.0];
    let mut p = rec_pw(&ends);
    for s in p.segments.iter_mut() {
        s.poly = s.poly * 2.0;
    }
    // skipped first piece
    let mut q = p.clone();
    q.segments[0].poly = Rec::new(0);
    m.canary(|m| check_rec(m, "canary", Op::Mul(2.0), &ends, &q.segments));
    // scaled breakpoint
    let mut q = p.clone();
    q.segments[1].end = 4.0;
    m.canary(|m| check_rec(m, "canary", Op::Mul(2.0), &ends, &q.segments));
    // wrong scalar
    m.canary(|m| check_rec(m, "canary", Op::Mul(3.0), &ends, &p.segments));
    // applied twice
    let mut q = p.clone();
    q.segments[2].poly = q.segments[2].poly * 2.0;
    m.canary(|m| check_rec(m, "canary", Op::Mul(2.0), &ends, &q.segments));
}

pub const FLOORS: &[&str] = &["nonfinite_translate_checked", "mul_assign_vs_mul_compared", "value_level_checks", "rec_functions", "rec_functions_with_nan_breakpoint", "rec_single_piece", "real:Piecewise:mul:Poly3", "real:Piecewise:neg:IntOfLogPoly4", "real:Segment:mul_assign_ref:Poly8", "real:Piecewise:mul_assign:Log<Poly4>"];

pub fn run(a: &Args, m: &mut Mon) {
    m.floors(FLOORS);
    canaries(m);
    let mut r = Rng::lane(a.seed, "C15", a.shard, 0);
    let n = a.n(600_000, 30_000_000);
    for k in 0..n {
        let nn = match r.below(10) {
            0 => 1,
            1..=7 => r.usize(2, 8),
            _ => {
                if k % 64 == 9 {
                    m.count("very_long_functions");
                    r.usize(500, 5000)
                } else {
                    r.usize(9, 100)
                }
            }
        };
        let (mut ends, _c) = gen_ends_any(&mut r, nn);
        if r.below(12) == 0 {
            // the statement quantifies over all piecewise functions: a NaN breakpoint ("no upper bound" marker, a
            // poisoned value) must come back bit for bit as well; the recorder lane compares bit patterns only
            let i = r.usize(0, ends.len() - 1);
            ends[i] = f64::from_bits(0x7ff8_0000_0000_0000 | (r.next_u64() & 0xffff) | ((r.next_u64() & 1) << 63));
            m.count("rec_functions_with_nan_breakpoint");
        }
        m.count("rec_functions");
        if ends.len() == 1 {
            m.count("rec_single_piece");
        }
        rec_workload(m, &mut r, &ends);
        macro_rules! full {
            ($t:ident) => {
                match r.below(3) {
                    0 => real_full!(m, &mut r, $t, false, true),
                    1 => real_full!(m, &mut r, IntOfLog<$t>, true, false),
                    _ => real_log!(m, &mut r, $t),
                }
            };
        }
        match (k + r.below(10)) % 10 {
            0 => full!(Poly0),
            1 => full!(Poly1),
            2 => full!(Poly2),
            3 => full!(Poly3),
            4 => full!(Poly4),
            5 => full!(Poly5),
            6 => full!(Poly6),
            7 => full!(Poly7),
            8 => full!(Poly8),
            _ => real_quartic(m, &mut r),
        }
    }
}
