//! C11 — piecewise integration: structure decided online with trace probes (and the two iterator
//! variants compared), values decided offline by oracles/c11.py.

use ppv::events::*;
use ppv::flat::*;
use ppv::gen::*;
use ppv::mon::*;
use ppv::probe::*;
use piecewise_polynomial::*;
use serde_json::json;

fn near(a: f64, b: f64, scale: f64) -> bool {
    (a - b).abs() <= 8.0 * f64::EPSILON * (scale + a.abs() + b.abs())
}

/// Oracle for the probe lane: `res` is what Piecewise::integral(k0) (k0 = Some) or indefinite() returned.
pub fn check_tr_integral(m: &mut Mon, what: &str, ends: &[f64], k0: Option<Knot>, res: &[Segment<TrI>]) {
    m.eval();
    let sig = |s: &str| format!("{} {}", what, s);
    if res.len() != ends.len() {
        m.violation(&sig("changes the number of pieces"), || json!({"ends": hxs(ends), "out": res.len()}));
        return;
    }
    for (i, s) in res.iter().enumerate() {
        if s.end.to_bits() != ends[i].to_bits() {
            m.violation(&sig("changes a breakpoint"), || json!({"ends": hxs(ends), "i": i, "observed": hx(s.end)}));
            return;
        }
        if s.poly.id != i as u32 {
            m.violation(&sig("piece is not the integral of the corresponding piece"), || json!({"ends": hxs(ends), "i": i, "observed_id": s.poly.id}));
            return;
        }
    }
    // first piece
    let f0 = res[0].poly;
    match k0 {
        Some(k) => {
            let v = tr_base(0, k.x) + f0.shift;
            if !near(v, k.y, tr_base(0, k.x).abs()) {
                m.violation(&sig("first piece does not pass through the knot"), || json!({"ends": hxs(ends), "knot": [hx(k.x), hx(k.y)], "value_at_knot_x": hx(v)}));
                return;
            }
        }
        None => {
            if f0.shift != 0.0 {
                m.violation(&sig("first piece of indefinite() has a non-zero additive constant"), || json!({"ends": hxs(ends), "shift": hx(f0.shift)}));
                return;
            }
        }
    }
    // continuity at every interior breakpoint
    for i in 0..res.len() - 1 {
        let e = ends[i];
        let l = tr_base(i as u32, e) + res[i].poly.shift;
        let r = tr_base(i as u32 + 1, e) + res[i + 1].poly.shift;
        if !near(l, r, tr_base(i as u32, e).abs() + tr_base(i as u32 + 1, e).abs()) {
            m.violation(&sig("adjacent pieces disagree at an interior breakpoint"), || json!({"ends": hxs(ends), "i": i, "left": hx(l), "right": hx(r)}));
            return;
        }
    }
}

fn probe_lane(m: &mut Mon, r: &mut Rng) {
    let n = match r.below(8) {
        0 => 1,
        1..=5 => r.usize(2, 8),
        _ => {
            if r.chance(0.05) {
                r.usize(300, 3000)
            } else {
                r.usize(9, 40)
            }
        }
    };
    let class = r.pick(&[EndsClass::Strict, EndsClass::Dups, EndsClass::IntGrid, EndsClass::Positive, EndsClass::Bench, EndsClass::UlpWide]);
    let ends: Vec<f64> = gen_ends(r, n, class).into_iter().map(|e| if e.is_finite() { e.clamp(-1e6, 1e6) } else { 0.0 }).collect();
    let mut ends = ends;
    ends.sort_by(|a, b| a.partial_cmp(b).unwrap());
    let pw = tr_pw(&ends);
    let k = Knot { x: if r.chance(0.7) { ends[0] - r.uniform(0.0, 2.0) } else { r.uniform(-10.0, 10.0) }, y: r.mixed(2.0) };
    m.case(hash_bits(111, ends.iter().map(|e| e.to_bits()).chain([k.x.to_bits(), k.y.to_bits()])));
    m.count("probe_functions");
    if ends.windows(2).any(|w| w[0] == w[1]) {
        m.count("probe_duplicate_breakpoints");
    }
    tr_log_take();
    match guard(|| pw.integral(k)) {
        Err(p) => m.panic("Piecewise::integral panic (probe)", &p, || json!({"ends": hxs(&ends)})),
        Ok(res) => check_tr_integral(m, "Piecewise::integral", &ends, Some(k), &res.segments),
    }
    match guard(|| pw.indefinite()) {
        Err(p) => m.panic("Piecewise::indefinite panic (probe)", &p, || json!({"ends": hxs(&ends)})),
        Ok(res) => check_tr_integral(m, "Piecewise::indefinite", &ends, None, &res.segments),
    }
    // the two iterator variants yield identical pieces
    let byref = guard(|| Segment::integral_iter_ref(&pw.segments, k).collect::<Vec<_>>());
    let byval = guard(|| Segment::integral_iter(pw.segments.clone(), k).collect::<Vec<_>>());
    match (byref, byval) {
        (Ok(a), Ok(b)) => {
            m.count("iterator_variants_compared");
            check_tr_integral(m, "Segment::integral_iter_ref", &ends, Some(k), &a);
            check_tr_integral(m, "Segment::integral_iter", &ends, Some(k), &b);
            if a != b {
                m.violation("integral_iter and integral_iter_ref yield different pieces", || json!({"ends": hxs(&ends)}));
            }
        }
        (Err(p), _) | (_, Err(p)) => m.panic("Segment::integral_iter panic (probe)", &p, || json!({"ends": hxs(&ends)})),
    }
    // other ways a caller may feed and drain the lazy iterators: sources without an exact size hint, internal
    // iteration (fold / for_each / last), a few next() calls followed by internal iteration, skipping
    let style = r.below(7);
    let n = pw.segments.len();
    let j = r.usize(0, n.min(4));
    let byref2 = r.chance(0.5);
    let full = guard(|| {
        macro_rules! drain {
            ($it:expr) => {{
                let mut it = $it;
                let mut out: Vec<Segment<TrI>> = Vec::new();
                match style {
                    0 | 1 => it.for_each(|p| out.push(p)),
                    2 => {
                        out = it.fold(Vec::new(), |mut v, p| {
                            v.push(p);
                            v
                        })
                    }
                    3 => {
                        for _ in 0..j {
                            if let Some(p) = it.next() {
                                out.push(p);
                            }
                        }
                        it.for_each(|p| out.push(p));
                    }
                    4 => {
                        // skip(j): only the pieces from j on are yielded
                        out = it.skip(j).collect();
                    }
                    5 => {
                        // step_by(2) keeps pieces 0, 2, 4, ...
                        out = it.step_by(2).collect();
                    }
                    _ => {
                        out = it.last().into_iter().collect();
                    }
                }
                out
            }};
        }
        if byref2 {
            match style {
                0 => drain!(Segment::integral_iter_ref(pw.segments.iter().filter(|_| true), k)),
                1 => {
                    let mut src = pw.segments.iter();
                    drain!(Segment::integral_iter_ref(std::iter::from_fn(move || src.next()), k))
                }
                _ => drain!(Segment::integral_iter_ref(&pw.segments, k)),
            }
        } else {
            match style {
                0 => drain!(Segment::integral_iter(pw.segments.clone().into_iter().filter(|_| true), k)),
                1 => {
                    let mut src = pw.segments.clone().into_iter();
                    drain!(Segment::integral_iter(std::iter::from_fn(move || src.next()), k))
                }
                _ => drain!(Segment::integral_iter(pw.segments.clone(), k)),
            }
        }
    });
    match (full, guard(|| Segment::integral_iter_ref(&pw.segments, k).collect::<Vec<_>>())) {
        (Ok(got), Ok(all)) => {
            m.count(["iterator_style:filter_source", "iterator_style:from_fn_source", "iterator_style:fold", "iterator_style:next_then_for_each",
                "iterator_style:skip", "iterator_style:step_by", "iterator_style:last"][style as usize]);
            let want: Vec<Segment<TrI>> = match style {
                4 => all.iter().skip(j).cloned().collect(),
                5 => all.iter().step_by(2).cloned().collect(),
                6 => all.last().cloned().into_iter().collect(),
                _ => all.clone(),
            };
            if style <= 3 {
                check_tr_integral(m, "Segment::integral_iter (other consumption style)", &ends, Some(k), &got);
            }
            if got != want {
                m.violation(&format!("integral_iter yields different pieces when fed / drained differently (style {})", style), || json!({"ends": hxs(&ends), "style": style, "skip": j, "by_ref": byref2}));
            }
        }
        (Err(p), _) | (_, Err(p)) => m.panic("Segment::integral_iter panic (probe, other consumption style)", &p, || json!({"ends": hxs(&ends), "style": style})),
    }
    tr_log_take();
    m.sample("probe", 1, || json!({"ends": ends.iter().take(10).collect::<Vec<_>>(), "knot": [k.x, k.y]}));
}

macro_rules! emit_lane {
    ($m:expr, $sink:expr, $r:expr, $t:ty, $kind:expr, $deg:expr, $pw:expr, $k:expr, $origin:expr) => {{
        let m: &mut Mon = $m;
        let r: &mut Rng = $r;
        let log = $kind == "log";
        let pw: Piecewise<$t> = $pw;
        let k: Knot = $k;
        let ends: Vec<f64> = pw_ends(&pw);
        let coeffs: Vec<Vec<f64>> = pw.segments.iter().map(|s| s.poly.nums()).collect();
        m.count(&format!("origin:{}", $origin));
        m.eval();
        m.count(&format!("real:{}:{}", $kind, $deg));
        if ends.len() == 1 { m.count("single_piece"); }
        if ends.windows(2).any(|w| w[0] == w[1]) { m.count("duplicate_breakpoints"); }
        if k.x < ends[0] { m.count("knot_inside_first_piece"); } else { m.count("knot_outside_first_piece"); }
        let hh = hash_bits(11, pw_nums(&pw).iter().map(|e| e.to_bits()).chain([k.x.to_bits(), k.y.to_bits(), $deg as u64, log as u64]));
        let qmin = if log { 1e-6 * ends[0].min(1.0) } else { 0.0 };
        let mut qs: Vec<f64> = critical_queries(&ends).into_iter().filter(|x| x.is_finite() && x.abs() < 1e6 && (!log || *x > qmin)).collect();
        // keep a bounded, seed-chosen subset of the critical queries (the oracle works at 400 bits)
        while qs.len() > 24 {
            let i = r.usize(0, qs.len() - 1);
            qs.swap_remove(i);
        }
        let res = guard(|| {
            let f = pw.integral(k);
            let i = pw.indefinite();
            let fq: Vec<f64> = qs.iter().map(|t| f.evaluate(*t)).collect();
            let iq: Vec<f64> = qs.iter().map(|t| i.evaluate(*t)).collect();
            let byval: Vec<_> = Segment::integral_iter(pw.segments.clone(), k).collect();
            let same = byval.len() == f.segments.len() && byval.iter().zip(f.segments.iter()).all(|(a, b)| all_bits_eq(&a.nums(), &b.nums()));
            (f, i, fq, iq, same)
        });
        match res {
            Err(pn) => m.panic("Piecewise integral panic", &pn, || json!({"kind": $kind, "deg": $deg, "ends": hxs(&ends)})),
            Ok((f, i, fq, iq, same)) => {
                if !same {
                    m.violation("integral_iter (by value) differs from integral (by reference) on real pieces", || json!({"kind": $kind, "deg": $deg, "ends": hxs(&ends)}));
                }
                m.count("iterator_variants_compared");
                $sink.emit(json!({"t": "pwint", "kind": $kind, "deg": $deg, "ends": hs(&ends), "p": coeffs.iter().map(|c| hs(c)).collect::<Vec<_>>(),
                    "kx": h(k.x), "ky": h(k.y),
                    "Fends": hs(&pw_ends(&f)), "F": f.segments.iter().map(|s| hs(&s.poly.nums())).collect::<Vec<_>>(),
                    "Iends": hs(&pw_ends(&i)), "I": i.segments.iter().map(|s| hs(&s.poly.nums())).collect::<Vec<_>>(),
                    "q": hs(&qs), "Fq": hs(&fq), "Iq": hs(&iq), "h": hh}));
            }
        }
    }};
}

macro_rules! real_lane {
    ($m:expr, $sink:expr, $r:expr, $t:ty, $kind:expr, $deg:expr) => {{
        let m: &mut Mon = $m;
        let r: &mut Rng = $r;
        let log = $kind == "log";
        let n = match r.below(10) { 0 => 1, 1..=7 => r.usize(2, 6), 8 => r.usize(7, 12), _ => r.usize(13, 40) };
        let class = if log { r.pick(&[EndsClass::Positive, EndsClass::Bench]) } else { r.pick(&[EndsClass::Strict, EndsClass::Dups, EndsClass::IntGrid, EndsClass::Bench, EndsClass::UlpWide]) };
        let mut ends: Vec<f64> = gen_ends(r, n, class).into_iter().map(|e| if log { e.clamp(1e-3, 1e3) } else { e.clamp(-1e3, 1e3) }).collect();
        if log && r.chance(0.2) && ends.len() > 1 {
            let i = r.usize(1, ends.len() - 1);
            ends[i] = ends[i - 1]; // duplicate breakpoint
        }
        let mut kscale = 1.0;
        if log && r.chance(0.12) {
            // all breakpoints (and the knot) at a tiny or huge common scale
            kscale = 10f64.powf(if r.chance(0.7) { r.uniform(-14.0, -8.0) } else { r.uniform(1.0, 2.5) });
            for e in ends.iter_mut() {
                *e *= kscale;
            }
            m.count("log_breakpoints_at_extreme_scale");
        }
        ends.sort_by(|a, b| a.partial_cmp(b).unwrap());
        if r.chance(0.15) {
            // open-ended last piece, as a user writes it: end = +inf (or just huge)
            let l = ends.len() - 1;
            ends[l] = if r.chance(0.7) { f64::INFINITY } else { 1e200 };
            m.count("open_ended_last_piece");
        }
        let mut coeffs: Vec<Vec<f64>> = (0..ends.len()).map(|_| (0..<$t as Nums>::LEN).map(|_| match r.below(4) { 0 => r.small_int(5), 1 => 0.0, _ => r.mixed(2.0) }).collect()).collect();
        repeat_some_pieces(r, &mut coeffs);
        let pw: Piecewise<$t> = pw_from(&ends, &coeffs);
        let inside = r.chance(0.75);
        let kx = if !(ends[0].abs() < 1e6) {
            if log { r.uniform(0.3, 3.0) } else { r.uniform(-3.0, 3.0) }
        } else if kscale != 1.0 {
            ends[0] * r.uniform(0.3, 1.0)
        } else if inside {
            if log { ends[0] * r.uniform(0.3, 1.0) } else { ends[0] - r.uniform(0.0, 3.0) }
        } else {
            // knot outside the first piece: relative to the last breakpoint that is an ordinary finite number
            let lf = ends.iter().rev().find(|e| e.abs() < 1e6).copied().unwrap_or(if log { 1.0 } else { 0.0 });
            if log { r.uniform(0.5, 3.0) * lf } else { lf + r.uniform(-1.0, 2.0) }
        };
        let k = Knot { x: kx, y: match r.below(3) { 0 => 0.0, 1 => 2.0, _ => r.mixed(2.0) } };
        emit_lane!(m, $sink, r, $t, $kind, $deg, pw, k, "generated");
    }};
}

fn canaries11(m: &mut Mon, sink: &mut Sink) {
    let ends = [1.0, 2.0, 3.0];
    let k = Knot { x: 0.0, y: 1.0 };
    let good: Vec<Segment<TrI>> = Segment::integral_iter_ref(&tr_pw(&ends).segments, k).collect();
    tr_log_take();
    let mut bad = good.clone();
    bad[1].poly.shift += 0.5; // discontinuity at the first interior breakpoint
    m.canary(|m| check_tr_integral(m, "canary", &ends, Some(k), &bad));
    let mut bad = good.clone();
    bad[0].poly.shift += 0.5; // does not pass through the knot (and breaks continuity)
    m.canary(|m| check_tr_integral(m, "canary", &ends, Some(k), &bad));
    let mut bad = good.clone();
    bad[2].end = 3.5;
    m.canary(|m| check_tr_integral(m, "canary", &ends, Some(k), &bad));
    let mut bad = good.clone();
    bad.pop();
    m.canary(|m| check_tr_integral(m, "canary", &ends, Some(k), &bad));
    m.canary(|m| check_tr_integral(m, "canary", &ends, None, &good)); // indefinite with non-zero constant
    // offline canaries: a two-piece linear function f = 1 on (-inf,1), 2 on [1,2): F = x, then 2x-1 ; corrupt
    let mk = |f1c: [f64; 2], fq1: f64| json!({"t": "pwint", "canary": true, "kind": "poly", "deg": 0, "ends": hs(&[1.0, 2.0]), "p": [hs(&[1.0]), hs(&[2.0])],
        "kx": h(0.0), "ky": h(0.0), "Fends": hs(&[1.0, 2.0]), "F": [hs(&[0.0, 1.0]), hs(&f1c)], "Iends": hs(&[1.0, 2.0]), "I": [hs(&[0.0, 1.0]), hs(&[-1.0, 2.0])],
        "q": hs(&[0.5, 1.5]), "Fq": hs(&[0.5, fq1]), "Iq": hs(&[0.5, 2.0]), "h": 0});
    sink.emit(mk([-0.5, 2.0], 2.5)); // discontinuous at 1
    sink.emit(mk([-1.0, 3.0], 3.5)); // second piece is not an antiderivative of 2
    sink.emit(mk([-1.0, 2.0], 2.25)); // evaluate differs from the true integral
    m.canaries_fed += 3;
}

pub const FLOORS: &[&str] = &[
    "probe_functions", "probe_duplicate_breakpoints", "iterator_variants_compared", "iterator_style:filter_source", "iterator_style:fold", "iterator_style:skip", "iterator_style:last", "single_piece", "duplicate_breakpoints",
    "knot_inside_first_piece", "knot_outside_first_piece", "real:poly:0", "real:poly:7", "real:log:0", "real:log:4", "real:log:8",
    "continuity_checked", "global_integral_checked", "antiderivative_checked", "open_ended_last_piece",
    "origin:pipeline_spline", "origin:pipeline_linear", "origin:pipeline_spline_derivative",
];

/// Realistic pipelines: the functions integrated are the ones the library itself builds from knots
/// (constrained_spline -> Piecewise<Poly3>, linear -> Piecewise<Poly1>), optionally scaled / translated /
/// differentiated first, as a downstream user composes them.
fn pipeline_lane(m: &mut Mon, sink: &mut Sink, r: &mut Rng) {
    let nk = r.usize(3, 12);
    let mut x = r.uniform(-5.0, 5.0);
    let xs: Vec<f64> = (0..nk)
        .map(|_| {
            let v = x;
            x += r.uniform(0.2, 2.0);
            v
        })
        .collect();
    let ys: Vec<f64> = (0..nk).map(|i| match r.below(3) { 0 => (i as f64 * 0.7).sin(), 1 => r.small_int(4), _ => r.uniform(-2.0, 2.0) }).collect();
    let knots: Vec<Knot> = xs.iter().zip(ys.iter()).map(|(x, y)| Knot { x: *x, y: *y }).collect();
    let k = Knot { x: xs[0] + r.uniform(-1.0, 0.9) * (xs[1] - xs[0]), y: r.mixed(1.0) };
    let s = match r.below(3) { 0 => 1.0, 1 => -1.0, _ => r.uniform(-3.0, 3.0) };
    let c = r.uniform(-2.0, 2.0);
    match r.below(3) {
        0 => {
            let built = guard(|| {
                let mut p = constrained_spline(&knots) * s;
                p.translate(c);
                p
            });
            match built {
                Err(pn) => m.panic("pipeline panic (spline * s, translate)", &pn, || json!({"x": hxs(&xs), "y": hxs(&ys)})),
                Ok(pw) => emit_lane!(m, sink, r, Poly3, "poly", 3, pw, k, "pipeline_spline"),
            }
        }
        1 => {
            let built = guard(|| {
                let mut p = linear(&knots);
                p *= s;
                p.translate(c);
                p
            });
            match built {
                Err(pn) => m.panic("pipeline panic (linear *= s, translate)", &pn, || json!({"x": hxs(&xs), "y": hxs(&ys)})),
                Ok(pw) => emit_lane!(m, sink, r, Poly1, "poly", 1, pw, k, "pipeline_linear"),
            }
        }
        _ => {
            let built = guard(|| -(constrained_spline(&knots).derivative()));
            match built {
                Err(pn) => m.panic("pipeline panic (-(spline.derivative()))", &pn, || json!({"x": hxs(&xs), "y": hxs(&ys)})),
                Ok(pw) => emit_lane!(m, sink, r, Poly2, "poly", 2, pw, k, "pipeline_spline_derivative"),
            }
        }
    }
}

pub fn drive(a: &Args, m: &mut Mon, sink: &mut Sink) {
    m.floors(FLOORS);
    canaries11(m, sink);
    let mut r = Rng::lane(a.seed, "C11", a.shard, 0);
    let n = a.n(800, 40_000);
    for _ in 0..n {
        for _ in 0..4 {
            probe_lane(m, &mut r);
        }
        for _ in 0..3 {
            pipeline_lane(m, sink, &mut r);
        }
        real_lane!(m, sink, &mut r, Poly0, "poly", 0);
        real_lane!(m, sink, &mut r, Poly1, "poly", 1);
        real_lane!(m, sink, &mut r, Poly2, "poly", 2);
        real_lane!(m, sink, &mut r, Poly3, "poly", 3);
        real_lane!(m, sink, &mut r, Poly4, "poly", 4);
        real_lane!(m, sink, &mut r, Poly5, "poly", 5);
        real_lane!(m, sink, &mut r, Poly6, "poly", 6);
        real_lane!(m, sink, &mut r, Poly7, "poly", 7);
        real_lane!(m, sink, &mut r, Log<Poly0>, "log", 0);
        real_lane!(m, sink, &mut r, Log<Poly1>, "log", 1);
        real_lane!(m, sink, &mut r, Log<Poly2>, "log", 2);
        real_lane!(m, sink, &mut r, Log<Poly3>, "log", 3);
        real_lane!(m, sink, &mut r, Log<Poly4>, "log", 4);
        real_lane!(m, sink, &mut r, Log<Poly5>, "log", 5);
        real_lane!(m, sink, &mut r, Log<Poly6>, "log", 6);
        real_lane!(m, sink, &mut r, Log<Poly7>, "log", 7);
        real_lane!(m, sink, &mut r, Log<Poly8>, "log", 8);
    }
}
