//! C16 — evaluation never panics on well-formed input; NaN queries are harmless.
//! (1) C03's history and exploration workloads with NaN / +-inf in the alphabet: every non-NaN
//!     answer, in particular those after a NaN, must be bit-identical to direct evaluation.
//! (2) direct evaluation and evaluate_v with every f64 class: no panic.
//! (3) panic sweep: run.py re-runs every other driver binary at reduced scale (events discarded) and
//!     transfers only the panics they observed; documented rejections are exercised here and
//!     recorded, not judged.

use ppv::gen::*;
use ppv::mon::*;
use ppv::probe::*;
use crate::{c03, c12};
use piecewise_polynomial::*;
use serde_json::json;

pub const FLOORS: &[&str] = &[
    "nan_query",
    "answer_checked_after_nan",
    "exploration_fixpoints_reached",
    "direct_evaluate_nan",
    "direct_evaluate_inf",
    "evaluate_v_with_nan",
    "documented_rejection:linear<2",
    "documented_rejection:spline<3",
    "documented_rejection:empty-evaluate",
    "documented_rejection:empty-evaluator",
    "documented_rejection:empty-evaluate_v",
    "documented_rejection:nan-end-add",
    "documented_rejection:nan-end-sub",
];

fn nan_payload(r: &mut Rng) -> f64 {
    f64::from_bits(0x7ff8_0000_0000_0000 | (r.next_u64() & 0x7_ffff_ffff_ffff) | ((r.next_u64() & 1) << 63))
}

fn special(r: &mut Rng) -> f64 {
    match r.below(8) {
        0 => f64::NAN,
        1 => nan_payload(r),
        2 => f64::INFINITY,
        3 => f64::NEG_INFINITY,
        4 => f64::MAX,
        5 => f64::MIN,
        6 => f64::MIN_POSITIVE * 0.5,
        _ => -0.0,
    }
}

fn direct_and_v(m: &mut Mon, r: &mut Rng, n: u64) {
    for _ in 0..n {
        let k = match r.below(6) {
            0 => 1,
            _ => r.usize(2, 40),
        };
        let (ends, _c) = gen_ends_any(r, k);
        let pw = tag_pw(&ends);
        let mut xs = gen_history(r, &ends, r.clone().usize(1, 24), Policy::Jumps);
        for _ in 0..3 {
            let i = r.usize(0, xs.len() - 1);
            xs[i] = special(r);
        }
        m.case(hash_bits(16, ends.iter().chain(xs.iter()).map(|e| e.to_bits())));
        for &x in &xs {
            m.eval();
            if x.is_nan() {
                m.count("direct_evaluate_nan");
            }
            if x.is_infinite() {
                m.count("direct_evaluate_inf");
            }
            match guard(|| pw.evaluate(x)) {
                Err(p) => m.panic("Piecewise::evaluate panic on f64 argument", &p, || json!({"ends": hxs(&ends), "x": hx(x)})),
                Ok(v) => {
                    if !x.is_nan() {
                        // non-NaN queries are still decided (C02's oracle)
                        let s = sel(&ends, x);
                        if v.to_bits() != tagval(s as u32, x).to_bits() {
                            m.violation("Piecewise::evaluate wrong-segment (seen by C16 sweep)", || json!({"ends": hxs(&ends), "x": hx(x)}));
                        }
                    }
                }
            }
        }
        if xs.iter().any(|x| x.is_nan()) {
            m.count("evaluate_v_with_nan");
        }
        c12::tag_sequence(m, &ends, &pw, &xs, "C16", false);
    }
}

/// Documented rejections: exercised, outcome recorded, never judged.
fn documented(m: &mut Mon) {
    let rec = |m: &mut Mon, name: &str, r: Result<(), String>| {
        m.count(&format!("documented_rejection:{}", name));
        match r {
            Ok(()) => m.count(&format!("documented_rejection_returned:{}", name)),
            Err(_) => m.count(&format!("documented_rejection_panicked:{}", name)),
        }
    };
    let k = |x: f64, y: f64| Knot { x, y };
    let r = guard(|| {
        linear(&[k(0.0, 1.0)]);
    });
    rec(m, "linear<2", r);
    let r = guard(|| {
        constrained_spline(&[k(0.0, 1.0), k(1.0, 2.0)]);
    });
    rec(m, "spline<3", r);
    let empty: Piecewise<Poly1> = Piecewise { segments: vec![] };
    let r = guard(|| {
        empty.evaluate(1.0);
    });
    rec(m, "empty-evaluate", r);
    let r = guard(|| {
        let _ = PiecewiseEvaluator::new(&empty.segments);
    });
    rec(m, "empty-evaluator", r);
    let r = guard(|| {
        let _ = empty.evaluate_v(vec![1.0]).count();
    });
    rec(m, "empty-evaluate_v", r);
    // not documented either way, recorded only: finite knots whose abscissae are not increasing
    let r = guard(|| {
        constrained_spline(&[k(0.0, 1.0), k(0.0, 2.0), k(-1.0, 0.5), k(3.0, 0.0)]);
    });
    rec(m, "spline-non-increasing-x(not judged)", r);
    let _ = Knot::new(1.0, 2.0);
    let z = IntOfLogPoly4::default();
    let f = Piecewise { segments: vec![Segment { end: f64::NAN, poly: z }, Segment { end: 2.0, poly: z }] };
    let g = Piecewise { segments: vec![Segment { end: 1.0, poly: z }, Segment { end: 2.0, poly: z }] };
    let r = guard(|| {
        let _ = &f + &g;
    });
    rec(m, "nan-end-add", r);
    let r = guard(|| {
        let _ = &g - &f;
    });
    rec(m, "nan-end-sub", r);
}

pub fn canaries(m: &mut Mon) {
    // a recorded history whose answers after the NaN come from the wrong piece
    let ends = [1.0, 2.0, 3.0, 4.0];
    let wrong = Piecewise {
        segments: vec![
            Segment { end: 1.0, poly: Tag { id: 0 } },
            Segment { end: 2.0, poly: Tag { id: 1 } },
            Segment { end: 3.0, poly: Tag { id: 3 } },
            Segment { end: 4.0, poly: Tag { id: 2 } },
        ],
    };
    m.canary(|m| {
        c03::tag_history(m, true, &ends, &wrong, &[0.5, f64::NAN, 2.5], "canary");
    });
    m.canary(|m| {
        m.panic("canary panic", "x", || json!({}));
    });
}

pub fn run(a: &Args, m: &mut Mon) {
    m.floors(FLOORS);
    canaries(m);
    let mut r = Rng::lane(a.seed, "C16", a.shard, 0);
    documented(m);
    if a.shard == 0 {
        for ends in [vec![1.0, 2.0, 3.0, 4.0], vec![5.0, 10.0, 15.0], vec![1.0], vec![1.0, 1.0, 2.0]] {
            let alpha = c03::alphabet_for(&ends, true);
            c03::explore(m, true, &ends, &alpha, 1_000_000);
        }
    }
    let nh = a.n(400_000, 40_000_000);
    c03::workload_a(a, m, &mut r, nh, true, 20_000);
    let nf = a.n(800, 40_000);
    c03::workload_b(a, m, &mut r, nf, true);
    let nd = a.n(60_000, 6_000_000);
    direct_and_v(m, &mut r, nd);
}
