//! C12 — evaluate_v: lazily, in order, each argument evaluated with the segment that direct
//! evaluation selects for the running maximum (== pointwise evaluation for non-decreasing input).

use ppv::flat::*;
use ppv::gen::*;
use ppv::mon::*;
use ppv::probe::*;
use piecewise_polynomial::*;
use serde_json::json;
use std::cell::Cell;
use std::rc::Rc;

struct Counted<'a> {
    xs: &'a [f64],
    i: usize,
    pulls: Rc<Cell<usize>>,
}
impl<'a> Iterator for Counted<'a> {
    type Item = f64;
    fn next(&mut self) -> Option<f64> {
        if self.i < self.xs.len() {
            let v = self.xs[self.i];
            self.i += 1;
            self.pulls.set(self.pulls.get() + 1);
            Some(v)
        } else {
            None
        }
    }
}

/// Feed `xs` through evaluate_v on tag pieces. `nan_ok`: NaN arguments allowed (their outputs are not
/// checked and the running maximum ignores them; used by C16 only for panic-freedom).
pub fn tag_sequence(m: &mut Mon, ends: &[f64], pw: &Piecewise<Tag>, xs: &[f64], what: &str, check_values: bool) -> bool {
    let pulls = Rc::new(Cell::new(0usize));
    let src = Counted { xs, i: 0, pulls: pulls.clone() };
    let mut it = match guard(|| pw.evaluate_v(src)) {
        Ok(i) => i,
        Err(p) => {
            m.panic(&format!("{} evaluate_v panic", what), &p, || json!({"ends": hxs(ends)}));
            return false;
        }
    };
    if pulls.get() != 0 {
        m.violation(&format!("{} evaluate_v not lazy: pulled before first next()", what), || {
            json!({"ends": hxs(ends), "pulled": pulls.get()})
        });
    }
    let mut runmax = f64::NEG_INFINITY;
    let mut any_nan = false;
    let mut nondecreasing = true;
    for (k, &x) in xs.iter().enumerate() {
        m.eval();
        let got = guard(|| it.next());
        let v = match got {
            Err(p) => {
                m.panic(&format!("{} evaluate_v panic", what), &p, || {
                    json!({"ends": hxs(ends), "xs_prefix": hxs(&xs[..=k.min(63)]), "k": k})
                });
                return false;
            }
            Ok(None) => {
                m.violation(&format!("{} evaluate_v ended early", what), || {
                    json!({"ends": hxs(ends), "k": k, "len": xs.len()})
                });
                return true;
            }
            Ok(Some(v)) => v,
        };
        if pulls.get() != k + 1 {
            m.violation(&format!("{} evaluate_v not lazy/in-order: pulls != outputs", what), || {
                json!({"ends": hxs(ends), "k": k, "pulled": pulls.get()})
            });
        }
        if x.is_nan() {
            any_nan = true;
            m.count("nan_argument");
            continue;
        }
        if !check_values || any_nan {
            continue;
        }
        if x < runmax {
            nondecreasing = false;
            m.count("argument_below_running_max");
        } else {
            if k > 0 && x == runmax {
                m.count("repeated_or_equal_argument");
            }
            runmax = x;
        }
        if ends.iter().any(|e| *e == x) {
            m.count("argument_equals_an_end");
        }
        if x.is_infinite() {
            m.count("argument_infinite");
        }
        let s = sel(ends, runmax);
        let exp = tagval(s as u32, x);
        let mut bad = v.to_bits() != exp.to_bits();
        if nondecreasing {
            // pointwise definition
            m.count("checked_against_pointwise");
            let d = guard(|| pw.evaluate(x));
            bad |= !matches!(d, Ok(dv) if dv.to_bits() == v.to_bits());
        } else {
            m.count("checked_against_running_max_rule");
        }
        if bad {
            let which: Vec<usize> = (0..ends.len())
                .filter(|i| tagval(*i as u32, x).to_bits() == v.to_bits())
                .collect();
            let sig = if nondecreasing {
                format!("{} evaluate_v differs from pointwise evaluation on non-decreasing input", what)
            } else {
                format!("{} evaluate_v violates running-maximum rule", what)
            };
            let start = k.saturating_sub(6);
            m.violation(&sig, || {
                json!({"ends": hxs(ends), "ends_v": ends, "xs_tail": hxs(&xs[start..=k]),
                       "xs_tail_v": xs[start..=k].iter().map(|x| format!("{:e}", x)).collect::<Vec<_>>(),
                       "k": k, "running_max": hx(runmax), "expected_segment": s, "observed_segment": which})
            });
            return true;
        }
    }
    match guard(|| it.next()) {
        Ok(None) => {}
        Ok(Some(_)) => m.violation(&format!("{} evaluate_v yields more outputs than inputs", what), || json!({"ends": hxs(ends), "len": xs.len()})),
        Err(p) => m.panic(&format!("{} evaluate_v panic at end", what), &p, || json!({"ends": hxs(ends)})),
    }
    true
}

pub fn real_sequence<T: Nums + Evaluate>(m: &mut Mon, r: &mut Rng, positive: bool) {
    let n = match r.below(10) {
        0 => 1,
        1..=6 => r.usize(2, 8),
        _ => r.usize(9, 64),
    };
    let ends = if positive {
        let c = r.pick(&[EndsClass::Positive, EndsClass::Bench]);
        gen_ends(r, n, c)
    } else {
        gen_ends_any(r, n).0
    };
    let mut coeffs: Vec<Vec<f64>> = (0..ends.len())
        .map(|_| (0..T::LEN).map(|_| r.mixed(2.0)).collect())
        .collect();
    repeat_some_pieces(r, &mut coeffs);
    let pw: Piecewise<T> = pw_from(&ends, &coeffs);
    let len = r.usize(1, 64);
    let pol = r.pick(&[Policy::Up, Policy::Up, Policy::Walk, Policy::Jumps, Policy::Repeats, Policy::Uniform]);
    let mut xs = gen_history(r, &ends, len, pol);
    if r.chance(0.6) {
        xs.sort_by(|a, b| a.partial_cmp(b).unwrap());
    }
    let mut h = hash_bits(12, pw_nums(&pw).iter().map(|e| e.to_bits()));
    h = hash_bits(h, xs.iter().map(|e| e.to_bits()));
    m.case(mix2(h, T::LEN as u64));
    m.count(&format!("sequences_real:{}", T::NAME));
    // how the lazy iterator is fed and drained: collect; a few next() then internal iteration; an unbounded source cut
    // on the output side; a source without exact size hint; fold only; a second batch iterator of ANOTHER function
    // created (and partly drained) while this one is still alive
    let style = r.below(7);
    let j = r.usize(0, xs.len().min(5));
    let other: Piecewise<T> = {
        let n2 = r.usize(1, 12);
        let e2 = gen_ends_any(r, n2).0;
        let c2: Vec<Vec<f64>> = (0..e2.len()).map(|_| (0..T::LEN).map(|_| r.mixed(2.0)).collect()).collect();
        pw_from(&e2, &c2)
    };
    m.count(["batch_style:collect", "batch_style:next_then_for_each", "batch_style:unbounded_source_take", "batch_style:filter_source",
        "batch_style:fold", "batch_style:two_live_iterators", "batch_style:for_each"][style as usize]);
    let outs: Vec<f64> = match guard(|| {
        let n = xs.len();
        match style {
            0 => pw.evaluate_v(xs.iter().cloned()).collect::<Vec<f64>>(),
            1 => {
                let mut it = pw.evaluate_v(xs.iter().cloned());
                let mut out = Vec::new();
                for _ in 0..j {
                    if let Some(v) = it.next() {
                        out.push(v);
                    }
                }
                it.for_each(|v| out.push(v));
                out
            }
            2 => pw.evaluate_v(xs.iter().cloned().chain(std::iter::repeat(f64::INFINITY))).take(n).collect(),
            3 => pw.evaluate_v(xs.iter().cloned().filter(|_| true)).collect(),
            4 => pw.evaluate_v(xs.iter().cloned()).fold(Vec::new(), |mut v, y| {
                v.push(y);
                v
            }),
            5 => {
                let mut it = pw.evaluate_v(xs.iter().cloned());
                let mut out = Vec::new();
                for _ in 0..j {
                    if let Some(v) = it.next() {
                        out.push(v);
                    }
                }
                let mut it2 = other.evaluate_v(xs.iter().rev().cloned());
                let _ = it2.next();
                for v in it.by_ref() {
                    out.push(v);
                    let _ = it2.next();
                }
                out
            }
            _ => {
                let mut out = Vec::new();
                pw.evaluate_v(xs.iter().cloned()).for_each(|v| out.push(v));
                out
            }
        }
    }) {
        Ok(o) => o,
        Err(p) => {
            m.panic("real evaluate_v panic", &p, || json!({"type": T::NAME, "ends": hxs(&ends), "xs": hxs(&xs)}));
            return;
        }
    };
    if outs.len() != xs.len() {
        m.violation("real evaluate_v output count differs", || json!({"type": T::NAME, "in": xs.len(), "out": outs.len()}));
        return;
    }
    let mut runmax = f64::NEG_INFINITY;
    let mut nondecr = true;
    for (k, (&x, &v)) in xs.iter().zip(outs.iter()).enumerate() {
        m.eval();
        if x < runmax {
            nondecr = false;
        } else {
            runmax = x;
        }
        let s = sel(&ends, runmax);
        let exp = pw.segments[s].poly.evaluate(x);
        let mut bad = !bits_eq(v, exp);
        if nondecr {
            bad |= !bits_eq(v, pw.evaluate(x));
        }
        if bad {
            m.violation("real evaluate_v differs from selected piece / pointwise", || {
                json!({"type": T::NAME, "ends": hxs(&ends), "xs": hxs(&xs[..=k]), "k": k, "observed": hx(v), "expected": hx(exp), "expected_segment": s})
            });
            return;
        }
    }
}

/// every ordered pair / triple of critical queries from a fresh iterator: covers every
/// (state reachable by one or two arguments, next argument).
pub fn explore_pairs(m: &mut Mon, ends: &[f64], triples: bool, r: &mut Rng) {
    let pw = tag_pw(ends);
    let q = critical_queries(ends);
    for &a in &q {
        for &b in &q {
            tag_sequence(m, ends, &pw, &[a, b], "pairs", true);
            m.count("explored_pairs");
        }
    }
    if triples {
        for _ in 0..q.len() * q.len() {
            let t = [r.pick(&q), r.pick(&q), r.pick(&q), r.pick(&q)];
            tag_sequence(m, ends, &pw, &t, "quads", true);
            m.count("explored_quads");
        }
    }
    m.case(hash_bits(13, ends.iter().map(|e| e.to_bits())));
    m.sample("pairs", 2, || json!({"ends": ends, "alphabet": q.len(), "pairs": q.len() * q.len()}));
}

pub fn canaries(m: &mut Mon) {
    let ends = [1.0, 2.0, 3.0, 4.0];
    let wrong = Piecewise {
        segments: vec![
            Segment { end: 1.0, poly: Tag { id: 0 } },
            Segment { end: 2.0, poly: Tag { id: 1 } },
            Segment { end: 3.0, poly: Tag { id: 3 } },
            Segment { end: 4.0, poly: Tag { id: 2 } },
        ],
    };
    m.canary(|m| {
        tag_sequence(m, &ends, &wrong, &[0.5, 2.5], "canary", true);
    });
    m.canary(|m| {
        tag_sequence(m, &ends, &wrong, &[3.5, 0.0], "canary", true);
    });
}

pub const FLOORS: &[&str] = &[
    "batch_style:two_live_iterators",
    "batch_style:unbounded_source_take",
    "batch_style:next_then_for_each",
    "checked_against_pointwise",
    "checked_against_running_max_rule",
    "argument_below_running_max",
    "repeated_or_equal_argument",
    "argument_equals_an_end",
    "argument_infinite",
    "explored_pairs",
    "single_segment_functions",
    "duplicate_end_functions",
];

pub fn run(a: &Args, m: &mut Mon) {
    m.floors(FLOORS);
    canaries(m);
    let mut r = Rng::lane(a.seed, "C12", a.shard, 0);
    if a.shard == 0 {
        for ends in [vec![5.0, 10.0, 15.0], vec![1.0], vec![1.0, 1.0, 2.0, 2.0], vec![-0.0, 0.0, 1.0]] {
            explore_pairs(m, &ends, true, &mut r);
        }
        let big: Vec<f64> = (0..70_001).map(|i| (i / 3) as f64 * 0.5).collect();
        let pw = tag_pw(&big);
        for pol in [Policy::Jumps, Policy::Up, Policy::LastFirst, Policy::ExactHits] {
            let xs = gen_history(&mut r, &big, 40, pol);
            tag_sequence(m, &big, &pw, &xs, "sequence", true);
        }
        m.count("function_longer_than_65536");
    }
    let nseq = a.n(1_200_000, 100_000_000);
    let maxlen = if a.thorough() { 100_000 } else { 300 };
    for k in 0..nseq {
        let n = match r.below(12) {
            0 => 1,
            1..=7 => r.usize(2, 8),
            8..=10 => r.usize(9, 64),
            _ => {
                if k % 40 == 7 {
                    m.count("very_long_functions");
                    r.usize(1000, 6000)
                } else {
                    r.usize(65, 300)
                }
            }
        };
        let (ends, _c) = gen_ends_any(&mut r, n);
        if ends.len() == 1 {
            m.count("single_segment_functions");
        }
        if ends.windows(2).any(|w| w[0] == w[1]) {
            m.count("duplicate_end_functions");
        }
        let pw = tag_pw(&ends);
        let pol = r.pick(&POLICIES);
        let len = if k % 997 == 0 { maxlen } else { r.usize(1, 64) };
        let mut xs = gen_history(&mut r, &ends, len, pol);
        if r.chance(0.5) {
            xs.sort_by(|a, b| a.partial_cmp(b).unwrap());
            m.count("sorted_sequences");
        }
        m.case(hash_bits(11, ends.iter().chain(xs.iter()).map(|e| e.to_bits())));
        tag_sequence(m, &ends, &pw, &xs, "sequence", true);
        m.sample(&format!("sequence:{:?}", pol), 1, || json!({"ends": ends.iter().take(12).collect::<Vec<_>>(), "n_segments": ends.len(),
            "xs": xs.iter().take(12).collect::<Vec<_>>(), "len": xs.len()}));
        if k % 3 == 0 {
            macro_rules! go {
                ($t:ident) => {
                    match r.below(3) {
                        0 => real_sequence::<$t>(m, &mut r, false),
                        1 => real_sequence::<Log<$t>>(m, &mut r, true),
                        _ => real_sequence::<IntOfLog<$t>>(m, &mut r, true),
                    }
                };
            }
            match r.below(10) {
                0 => go!(Poly0),
                1 => go!(Poly1),
                2 => go!(Poly2),
                3 => go!(Poly3),
                4 => go!(Poly4),
                5 => go!(Poly5),
                6 => go!(Poly6),
                7 => go!(Poly7),
                8 => go!(Poly8),
                _ => real_sequence::<IntOfLogPoly4>(m, &mut r, true),
            }
        }
    }
    let nf = a.n(3_000, 60_000);
    for _ in 0..nf {
        let n = r.usize(1, 8);
        let class = r.pick(&[EndsClass::Strict, EndsClass::Dups, EndsClass::UlpWide, EndsClass::MixedZero, EndsClass::IntGrid]);
        let ends = gen_ends(&mut r, n, class);
        explore_pairs(m, &ends, a.thorough(), &mut r);
    }
}
