//! C04/C05 — constrained_spline, C06 — linear(): drivers record knots and returned segments;
//! exact rational oracles: oracles/c04.py, c05.py, c06.py.

use ppv::events::*;
use ppv::flat::*;
use ppv::gen::*;
use ppv::mon::*;
use piecewise_polynomial::*;
use serde_json::json;

/// strictly increasing abscissae
fn abscissae(r: &mut Rng, n: usize) -> (Vec<f64>, &'static str) {
    let (mut xs, name): (Vec<f64>, &'static str) = match r.below(10) {
        8 if n >= 2 => {
            // almost regular grid: spacings within a relative 1e-14 .. 1e-7 of one another (clock jitter, a nudged knot)
            let h = r.pick(&[1.0, 0.5, 0.1, 3.0, 1e-3]) * if r.chance(0.3) { r.uniform(0.5, 2.0) } else { 1.0 };
            let x0 = if r.chance(0.5) { 0.0 } else { r.uniform(-10.0, 10.0) };
            let eps = 10f64.powf(r.uniform(-14.0, -7.0));
            let all = r.chance(0.5);
            let one = r.usize(0, n - 1);
            ((0..n).map(|i| x0 + i as f64 * h * if all || i == one { 1.0 + eps * r.uniform(-1.0, 1.0) } else { 1.0 }).collect(), "almost_regular_grid")
        }
        9 if n >= 3 => {
            // neighbouring intervals whose widths differ by a factor 1e8 .. 1e13 (a step written as two knots a hair
            // apart, a repeated sample); the narrow interval starts at x = 0 so that it is resolved exactly
            let k = r.usize(1, n - 2).min(n - 2);
            let narrow = 10f64.powf(r.uniform(-13.0, -8.0));
            let mut left: Vec<f64> = Vec::new();
            let mut x = 0.0;
            for _ in 0..k {
                x -= r.uniform(0.3, 2.0);
                left.push(x);
            }
            left.reverse();
            let mut v = left;
            v.push(0.0);
            v.push(narrow);
            let mut x = narrow;
            while v.len() < n {
                x += r.uniform(0.3, 2.0);
                v.push(x);
            }
            v.truncate(n);
            (v, "narrow_interval_next_to_wide_ones")
        }
        0 => ((0..n).map(|i| i as f64).collect(), "integer_grid"),
        1 => {
            let mut x = r.uniform(-5.0, 5.0);
            ((0..n).map(|_| { let v = x; x += r.uniform(0.05, 2.0); v }).collect(), "uneven")
        }
        2 => {
            let ratio = 10f64.powf(r.uniform(0.1, 6.0) / n as f64 * 3.0).min(1e6f64.powf(1.0 / 2.0));
            let mut x = r.uniform(0.1, 1.0);
            let mut dx = r.uniform(1e-3, 1.0);
            ((0..n).map(|_| { let v = x; x += dx; dx *= ratio; v }).collect(), "geometric_spacing")
        }
        3 => {
            let off = r.sign() * 10f64.powf(r.uniform(1.0, 9.0));
            let mut x = off;
            ((0..n).map(|_| { let v = x; x += r.uniform(0.5, 1.5); v }).collect(), "far_from_origin")
        }
        4 => {
            let sc = 10f64.powf(r.uniform(-25.0, 25.0));
            let mut x = r.uniform(-3.0, 3.0);
            ((0..n).map(|_| { let v = x * sc; x += r.uniform(0.1, 1.0); v }).collect(), "scaled")
        }
        5 => {
            // benchmark: integer grid 0..49
            ((0..n).map(|i| i as f64).collect(), "benchmark_grid")
        }
        6 => {
            let mut x = -(n as f64) * 0.5;
            ((0..n).map(|_| { let v = x; x += r.pick(&[0.25, 0.5, 1.0, 2.0]); v }).collect(), "dyadic_steps_across_zero")
        }
        _ => {
            let mut x = r.uniform(-100.0, 100.0);
            ((0..n).map(|_| { let v = x; x += r.logu_pos(2.0); v }).collect(), "log_uniform_steps")
        }
    };
    // enforce strictly increasing after rounding
    for i in 1..xs.len() {
        if !(xs[i] > xs[i - 1]) {
            xs[i] = xs[i - 1].next_up();
        }
    }
    (xs, name)
}

fn ordinates(r: &mut Rng, xs: &[f64]) -> (Vec<f64>, &'static str) {
    let n = xs.len();
    let ysc = match r.below(16) {
        0..=3 => 1.0,
        4..=7 => 10f64.powf(r.uniform(-25.0, 25.0)),
        8 => 10f64.powf(r.uniform(150.0, 285.0)),   // secant slopes whose products overflow
        9 => 10f64.powf(r.uniform(-140.0, -100.0)), // secant slopes whose products are tiny but normal
        _ => 10f64.powf(r.uniform(-3.0, 3.0)),
    };
    let (ys, name): (Vec<f64>, &'static str) = match r.below(10) {
        0 => {
            let mut y = r.uniform(-1.0, 1.0);
            ((0..n).map(|_| { y += r.uniform(0.01, 1.0); y }).collect(), "monotone_increasing")
        }
        1 => {
            let mut y = r.uniform(-1.0, 1.0);
            ((0..n).map(|_| { y -= r.uniform(0.01, 1.0); y }).collect(), "monotone_decreasing")
        }
        2 => ((0..n).map(|i| if i % 2 == 0 { r.uniform(0.5, 1.0) } else { -r.uniform(0.5, 1.0) }).collect(), "oscillating"),
        3 => {
            let mut y = 0.0;
            ((0..n).map(|_| { if r.chance(0.4) { y += r.small_int(3); } y }).collect(), "plateaux")
        }
        4 => {
            // ramp into plateau
            let k = r.usize(1, n - 1);
            ((0..n).map(|i| if i < k { i as f64 } else { k as f64 }).collect(), "ramp_into_plateau")
        }
        5 => {
            // exactly collinear: small integer slope/intercept on exactly representable abscissae
            let a = r.small_int(5);
            let b = r.small_int(4);
            (xs.iter().map(|x| a + b * x).collect(), "collinear")
        }
        6 => {
            let a = r.uniform(-2.0, 2.0);
            let b = r.uniform(-2.0, 2.0);
            (xs.iter().map(|x| (a + b * x) * (1.0 + 1e-9 * r.uniform(-1.0, 1.0))).collect(), "collinear_plus_noise")
        }
        7 => ((0..n).map(|_| r.uniform(-1.0, 1.0)).collect(), "random"),
        8 => ((0..n).map(|_| r.small_int(3)).collect(), "small_integers_with_repeats"),
        _ => (xs.iter().map(|x| (x * 0.37).sin()).collect(), "smooth"),
    };
    // knots must be finite: shrink the scale until every scaled ordinate (and every difference of two) is
    let mut ysc = ysc;
    while ys.iter().any(|y: &f64| !(y * ysc).abs().lt(&1e300)) {
        ysc *= 1e-20;
    }
    let mut ys: Vec<f64> = ys.into_iter().map(|y: f64| y * ysc).collect();
    let mut name = name;
    if r.chance(0.04) {
        // plateau at zero written with both signs of zero (y1 - y0 is then -0.0 or +0.0)
        for y in ys.iter_mut() {
            *y = if r.chance(0.5) { 0.0 } else { -0.0 };
        }
        if r.chance(0.5) {
            let k = r.usize(0, ys.len() - 1);
            ys[k] = r.small_int(3);
        }
        name = "signed_zero_plateau";
    } else if r.chance(0.1) {
        for y in ys.iter_mut() {
            if *y == 0.0 && r.chance(0.5) {
                *y = -0.0;
            }
        }
    }
    (ys, name)
}

pub fn drive_spline(a: &Args, m: &mut Mon, sink: &mut Sink) {
    let prop = a.prop.clone();
    let tag = if prop == "C05" { "C05" } else { "C04" };
    m.floors(&["family_x:integer_grid", "family_x:far_from_origin", "family_x:geometric_spacing", "family_x:scaled", "family_x:almost_regular_grid", "family_x:narrow_interval_next_to_wide_ones", "family_y:oscillating", "family_y:plateaux",
        "family_y:ramp_into_plateau", "family_y:collinear", "family_y:collinear_plus_noise", "family_y:monotone_increasing", "family_y:signed_zero_plateau", "three_knots", "segments_checked", "very_long_knot_sets"]);
    spline_canaries(m, sink);
    let mut r = Rng::lane(a.seed, tag, a.shard, 0);
    let n = a.n(40_000, 1_500_000);
    for k in 0..n {
        let nk = if k % 2500 == 77 {
            m.count("very_long_knot_sets");
            r.usize(1000, 2600)
        } else {
            match r.below(10) {
                0 => 3,
                1..=6 => r.usize(4, 8),
                7 | 8 => r.usize(9, 20),
                _ => r.usize(21, 60),
            }
        };
        let (xs, xf) = abscissae(&mut r, nk);
        let (ys, yf) = ordinates(&mut r, &xs);
        let knots: Vec<Knot> = xs.iter().zip(ys.iter()).map(|(x, y)| Knot { x: *x, y: *y }).collect();
        m.eval();
        m.count(&format!("family_x:{}", xf));
        m.count(&format!("family_y:{}", yf));
        if nk == 3 {
            m.count("three_knots");
        }
        let hh = hash_bits(4, xs.iter().chain(ys.iter()).map(|e| e.to_bits()));
        match guard(|| constrained_spline(&knots)) {
            Err(p) => m.panic("constrained_spline panic", &p, || json!({"x": hxs(&xs), "y": hxs(&ys)})),
            Ok(pw) => sink.emit(json!({"t": "spline", "x": hs(&xs), "y": hs(&ys), "ends": hs(&pw_ends(&pw)),
                "co": pw.segments.iter().map(|s| hs(&s.poly.0)).collect::<Vec<_>>(), "h": hh, "xf": xf, "yf": yf})),
        }
    }
}

fn spline_canaries(m: &mut Mon, sink: &mut Sink) {
    // knots (0,0) (1,1) (2,0) (3,1): a correct result, then corrupted copies
    let xs = [0.0, 1.0, 2.0, 3.0];
    let ys = [0.0, 1.0, 0.0, 1.0];
    let knots: Vec<Knot> = xs.iter().zip(ys.iter()).map(|(x, y)| Knot { x: *x, y: *y }).collect();
    let good = constrained_spline(&knots);
    let emit = |sink: &mut Sink, pw: &Piecewise<Poly3>| {
        sink.emit(json!({"t": "spline", "canary": true, "x": hs(&xs), "y": hs(&ys), "ends": hs(&pw_ends(pw)),
            "co": pw.segments.iter().map(|s| hs(&s.poly.0)).collect::<Vec<_>>(), "h": 0, "xf": "canary", "yf": "canary"}));
    };
    let mut bad = good.clone();
    bad.segments[1].poly.0[0] += 1e-9; // no longer interpolates
    emit(sink, &bad);
    let mut bad = good.clone();
    bad.segments[1].end = 2.5; // wrong breakpoint
    emit(sink, &bad);
    let mut bad = good.clone();
    // unconstrained-looking cubic through the same knots with non-zero slope at the extremum: y = 1 - (x-1)^2 ... on [1,2]: passes (1,1),(2,0) with slope 0 at 1 and -2 at 2
    bad.segments[1].poly = Poly3([0.0, 2.0, -1.0, 0.0]);
    emit(sink, &bad);
    let mut bad = good.clone();
    // overshoot: cubic through (0,0),(1,1) with slopes 0 and 0 replaced by a hump: y = x + 3x(1-x)
    bad.segments[0].poly = Poly3([0.0, 4.0, -3.0, 0.0]);
    emit(sink, &bad);
    m.canaries_fed += 4;
}

// ------------------------------------------------------------------------------------------ C06

pub fn drive_linear(a: &Args, m: &mut Mon, sink: &mut Sink) {
    m.floors(&["family:strictly_increasing", "family:coordinates_near_f64_max", "family:repeated_abscissae", "family:out_of_order_runs", "family:epsilon_gaps", "family:large_offsets", "two_knots",
        "segments_checked", "narrow_segment_constant", "evaluations_checked", "very_long_knot_sets"]);
    linear_canaries(m, sink);
    let mut r = Rng::lane(a.seed, "C06", a.shard, 0);
    let n = a.n(60_000, 4_000_000);
    for k in 0..n {
        let nk = if k % 2500 == 77 {
            m.count("very_long_knot_sets");
            r.usize(1000, 2600)
        } else {
            match r.below(10) {
                0 => 2,
                1..=7 => r.usize(3, 8),
                _ => r.usize(9, 50),
            }
        };
        let (xs, fam): (Vec<f64>, &'static str) = match r.below(9) {
            8 => {
                // finite coordinates within a few binades of f64::MAX (sums of them overflow, the coordinates and
                // their differences do not); the value-level oracle treats these magnitudes as out of its domain,
                // what is observed here is that linear() returns at all
                let mut x = r.uniform(1.0, 9.0) * 1e307;
                ((0..nk.min(12)).map(|_| { let v = x; x += r.uniform(0.01, 0.1) * 1e307; v }).collect(), "coordinates_near_f64_max")
            }
            0 | 1 => (abscissae(&mut r, nk).0, "strictly_increasing"),
            2 => {
                let mut x = r.small_int(5);
                ((0..nk).map(|_| { if r.chance(0.6) { x += r.pick(&[0.5, 1.0, 2.0]); } x }).collect(), "repeated_abscissae")
            }
            3 => {
                let base = abscissae(&mut r, nk).0;
                let mut v = base.clone();
                let i = r.usize(0, nk - 1);
                let j = r.usize(i, (i + 4).min(nk - 1));
                v[i..=j].reverse();
                if r.chance(0.3) { v.reverse(); }
                (v, "out_of_order_runs")
            }
            4 => {
                // gaps of exactly EPSILON, EPSILON -+ 1ulp, 0 around values where the subtraction is exact
                let mut x = r.pick(&[0.0, 0.5, 1.0, -1.0, 0.25]);
                let e = f64::EPSILON;
                ((0..nk).map(|_| { let v = x; x += r.pick(&[0.0, e, e.next_down(), e.next_up(), 2.0 * e, 0.5 * e, 1.0]); v }).collect(), "epsilon_gaps")
            }
            5 => {
                let off = r.sign() * 10f64.powf(r.uniform(3.0, 15.0));
                let mut x = off;
                ((0..nk).map(|_| { let v = x; x += r.uniform(0.5, 2.0) * off.abs() * 1e-3; v }).collect(), "large_offsets")
            }
            6 => ((0..nk).map(|_| r.mixed(4.0)).collect(), "random_order"),
            _ => {
                let sc = 10f64.powf(r.uniform(-20.0, 20.0));
                (abscissae(&mut r, nk).0.into_iter().map(|x| x * sc).collect(), "scaled")
            }
        };
        let ysc = match r.below(3) { 0 => 1.0, 1 => 10f64.powf(r.uniform(-20.0, 20.0)), _ => 10f64.powf(r.uniform(-3.0, 3.0)) };
        let nk = xs.len();
        let ys: Vec<f64> = if fam == "coordinates_near_f64_max" {
            let sg = r.sign();
            (0..nk).map(|_| sg * r.uniform(0.5, 1.7) * 1e308).collect()
        } else {
            (0..nk).map(|_| match r.below(4) { 0 => r.small_int(5), 1 => 0.0, _ => r.uniform(-1.0, 1.0) } * ysc).collect()
        };
        let knots: Vec<Knot> = xs.iter().zip(ys.iter()).map(|(x, y)| Knot { x: *x, y: *y }).collect();
        m.eval();
        m.count(&format!("family:{}", fam));
        if nk == 2 {
            m.count("two_knots");
        }
        let hh = hash_bits(6, xs.iter().chain(ys.iter()).map(|e| e.to_bits()));
        match guard(|| {
            let pw = linear(&knots);
            // probe points: every knot abscissa, midpoints, neighbours, outside
            let mut q: Vec<f64> = Vec::new();
            for w in xs.windows(2) {
                q.push(w[0]);
                q.push(w[0] * 0.5 + w[1] * 0.5);
                q.push(w[0] + (w[1] - w[0]) * 0.25);
            }
            q.push(xs[nk - 1]);
            q.push(xs[0] - (xs[1] - xs[0]).abs());
            q.push(xs[nk - 1] + (xs[nk - 1] - xs[nk - 2]).abs());
            q.retain(|x| x.is_finite());
            q.truncate(64);
            let v: Vec<f64> = q.iter().map(|x| pw.evaluate(*x)).collect();
            (pw, q, v)
        }) {
            Err(p) => m.panic("linear panic", &p, || json!({"x": hxs(&xs), "y": hxs(&ys)})),
            Ok((pw, q, v)) => sink.emit(json!({"t": "linear", "x": hs(&xs), "y": hs(&ys), "ends": hs(&pw_ends(&pw)),
                "co": pw.segments.iter().map(|s| hs(&s.poly.0)).collect::<Vec<_>>(), "q": hs(&q), "v": hs(&v), "h": hh, "fam": fam})),
        }
    }
}

fn linear_canaries(m: &mut Mon, sink: &mut Sink) {
    let xs = [0.0, 1.0, 0.5, 2.0];
    let ys = [0.0, 2.0, 1.0, 3.0];
    let knots: Vec<Knot> = xs.iter().zip(ys.iter()).map(|(x, y)| Knot { x: *x, y: *y }).collect();
    let good = linear(&knots);
    let emit = |sink: &mut Sink, pw: &Piecewise<Poly1>, q: &[f64], v: &[f64]| {
        sink.emit(json!({"t": "linear", "canary": true, "x": hs(&xs), "y": hs(&ys), "ends": hs(&pw_ends(pw)),
            "co": pw.segments.iter().map(|s| hs(&s.poly.0)).collect::<Vec<_>>(), "q": hs(q), "v": hs(v), "h": 0, "fam": "canary"}));
    };
    let mut bad = good.clone();
    bad.segments[1].end = 0.5; // running maximum dropped
    emit(sink, &bad, &[], &[]);
    let mut bad = good.clone();
    bad.segments[0].poly.0[1] = 2.5; // misses the right knot
    emit(sink, &bad, &[], &[]);
    let mut bad = good.clone();
    bad.segments[1].poly.0[1] = 1.0; // narrow segment not constant
    emit(sink, &bad, &[], &[]);
    bad = good.clone();
    bad.segments.pop();
    emit(sink, &bad, &[], &[]);
    // strictly increasing data, wrong evaluation
    let xs2 = [0.0, 1.0, 2.0];
    let ys2 = [0.0, 1.0, 3.0];
    let k2: Vec<Knot> = xs2.iter().zip(ys2.iter()).map(|(x, y)| Knot { x: *x, y: *y }).collect();
    let g2 = linear(&k2);
    sink.emit(json!({"t": "linear", "canary": true, "x": hs(&xs2), "y": hs(&ys2), "ends": hs(&pw_ends(&g2)),
        "co": g2.segments.iter().map(|s| hs(&s.poly.0)).collect::<Vec<_>>(), "q": hs(&[1.0]), "v": hs(&[1.0000001]), "h": 0, "fam": "canary"}));
    m.canaries_fed += 5;
}
