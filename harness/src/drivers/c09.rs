//! C09 — integrals of log-polynomials (all nine degrees), C10 — accuracy of the quartic
//! log-integral form. Drivers only record; oracles: oracles/c09.py, oracles/c10.py (400-bit).

use ppv::polygen::coeff_vec;
use ppv::events::*;
use ppv::flat::*;
use ppv::gen::*;
use ppv::mon::*;
use piecewise_polynomial::*;
use serde_json::json;

pub fn pos_arg(r: &mut Rng) -> (f64, &'static str) {
    match r.below(14) {
        12 => (10f64.powf(r.uniform(-40.0, -6.0)), "e-40_to_e-6"),
        13 => (10f64.powf(r.uniform(6.0, 40.0)), "e6_to_e40"),
        0 => (r.uniform(0.01, 1.0), "in_0_1"),
        1 => (r.uniform(1.0, 30.0), "above_1"),
        2 => (ulps(1.0, r.int(-40, 40)), "ulps_of_1"),
        3 => (r.logu_pos(1.0) * 1e4, "e4"),
        4 => (r.logu_pos(1.0) * 1e-4, "e-4"),
        5 => (r.uniform(0.8, 1.2), "benchmark_range"),
        6 => (2.0, "two"),
        7 => (3.0, "three"),
        8 => (r.logu_pos(6.0), "log_uniform"),
        9 => (1.0, "one"),
        _ => (r.uniform(0.2, 6.0), "moderate"),
    }
}

fn tiny_arg(r: &mut Rng) -> (f64, &'static str) {
    match r.below(3) {
        0 => (f64::from_bits(r.below(1 << 52).max(1)), "subnormal"),
        1 => (f64::MIN_POSITIVE * r.uniform(1.0, 1e6), "just_above_min_positive"),
        _ => (10f64.powf(r.uniform(-307.0, -290.0)), "tiny_normal"),
    }
}

macro_rules! logint_one {
    ($m:expr, $sink:expr, $r:expr, $t:ident, $deg:expr) => {{
        let m: &mut Mon = $m;
        let r: &mut Rng = $r;
        // 1 in 16: knot and both evaluation points tiny (down to subnormal), coefficients and knot ordinate scaled up
        // so that the terms themselves stay in the normal range
        let tiny = r.below(16) == 0;
        let (kx, kc) = if tiny { tiny_arg(r) } else { pos_arg(r) };
        let up = if tiny { 10f64.powf(r.uniform(255.0, 285.0)) } else { 1.0 };
        let ky = match r.below(4) { 0 => 0.0, 1 => 2.0, 2 => r.logu(5.0), _ => r.mixed(3.0) } * if tiny { up * kx } else { 1.0 };
        let (a, ac) = if tiny { tiny_arg(r) } else { pos_arg(r) };
        let (b, bc) = if tiny { tiny_arg(r) } else { pos_arg(r) };
        let (c, cc) = if tiny {
            ((0..<$t as Nums>::LEN).map(|_| r.uniform(-3.0, 3.0) * up).collect::<Vec<f64>>(), "scaled_up_for_tiny_points")
        } else {
            coeff_vec(r, <$t as Nums>::LEN, kx.ln())
        };
        let p = Log(<$t>::from_nums(&c));
        let k = if r.below(2) == 0 { m.count("knot_built_with_constructor"); Knot::new(kx, ky) } else { Knot { x: kx, y: ky } };
        m.eval();
        m.count(&format!("degree:{}", $deg));
        m.count(&format!("coeffs:{}", cc));
        m.count(&format!("knot_x:{}", kc));
        m.count(&format!("a:{}", ac));
        m.count(&format!("b:{}", bc));
        if (a < 1.0) != (b < 1.0) { m.count("a_b_straddle_one"); }
        if kx != 1.0 { m.count("knot_x_not_one"); }
        let hh = hash_bits(9, c.iter().map(|e| e.to_bits()).chain([kx.to_bits(), ky.to_bits(), a.to_bits(), b.to_bits(), $deg as u64]));
        let body = move || {
            let ind = p.indefinite();
            let f = p.integral(k);
            (ind.nums(), f.nums(), f.evaluate(kx), f.evaluate(a), f.evaluate(b), ind.evaluate(a), ind.evaluate(b))
        };
        let res = if r.below(16) == 0 {
            m.count("evaluated_on_fresh_thread");
            guard(move || std::thread::spawn(body).join().map_err(|_| ()).expect("library panic on a fresh thread"))
        } else {
            guard(body)
        };
        match res {
            Err(pn) => m.panic("log integral panic", &pn, || json!({"degree": $deg, "c": hxs(&c), "knot": [hx(kx), hx(ky)]})),
            Ok((ind, f, fk, fa, fb, ia, ib)) => {
                $sink.emit(json!({"t": "logint", "deg": $deg, "c": hs(&c), "kx": h(kx), "ky": h(ky), "a": h(a), "b": h(b),
                    "ind": hs(&ind), "F": hs(&f), "Fk": h(fk), "Fa": h(fa), "Fb": h(fb), "Ia": h(ia), "Ib": h(ib), "h": hh, "cc": cc}));
            }
        }
    }};
}

/// Concurrent lane (ppv::conc): integrate + evaluate from four threads at once; every distinct result vector a job
/// ever produced becomes an ordinary event for the oracle.
struct CJob09 {
    deg: u64,
    c: Vec<f64>,
    kx: f64,
    ky: f64,
    a: f64,
    b: f64,
    cc: &'static str,
}

macro_rules! logint_job {
    ($r:expr, $t:ident, $deg:expr, $jobs:expr, $meta:expr) => {{
        let r: &mut Rng = $r;
        let (kx, _) = pos_arg(r);
        let ky = match r.below(4) { 0 => 0.0, 1 => 2.0, 2 => r.logu(5.0), _ => r.mixed(3.0) };
        let (a, _) = pos_arg(r);
        let (b, _) = pos_arg(r);
        let (c, cc) = coeff_vec(r, <$t as Nums>::LEN, kx.ln());
        let p = Log(<$t>::from_nums(&c));
        $jobs.push(Box::new(move || {
            let ind = p.indefinite();
            let f = p.integral(Knot { x: kx, y: ky });
            let mut v = ind.nums();
            v.extend(f.nums());
            // (the two antiderivatives are evaluated at the same point back to back: consecutive calls with one argument)
            let fk = f.evaluate(kx);
            let (fa, ia) = (f.evaluate(a), ind.evaluate(a));
            let (fb, ib) = (f.evaluate(b), ind.evaluate(b));
            v.extend([fk, fa, fb, ia, ib]);
            v
        }) as ppv::conc::Job);
        $meta.push(CJob09 { deg: $deg, c, kx, ky, a, b, cc });
    }};
}

fn concurrent09(a: &Args, m: &mut Mon, sink: &mut Sink) {
    let mut r = Rng::lane(a.seed, "C09", a.shard, 7);
    let n = a.n(2_000, 100_000);
    let mut jobs: Vec<ppv::conc::Job> = Vec::new();
    let mut meta: Vec<CJob09> = Vec::new();
    while (jobs.len() as u64) < n {
        logint_job!(&mut r, Poly0, 0, jobs, meta);
        logint_job!(&mut r, Poly1, 1, jobs, meta);
        logint_job!(&mut r, Poly2, 2, jobs, meta);
        logint_job!(&mut r, Poly3, 3, jobs, meta);
        logint_job!(&mut r, Poly4, 4, jobs, meta);
        logint_job!(&mut r, Poly4, 4, jobs, meta);
        logint_job!(&mut r, Poly5, 5, jobs, meta);
        logint_job!(&mut r, Poly6, 6, jobs, meta);
        logint_job!(&mut r, Poly7, 7, jobs, meta);
        logint_job!(&mut r, Poly8, 8, jobs, meta);
    }
    match ppv::conc::run(&jobs, 4, if a.thorough() { 400 } else { 150 }, 4) {
        Err(pn) => m.panic("log integral panic (concurrent lane)", &pn, || json!({"lane": "concurrent"})),
        Ok((res, st)) => {
            m.add("concurrent_calls", st.calls);
            m.add("concurrent_jobs_with_more_than_one_result", st.jobs_with_more_than_one_result);
            for (e, vals) in meta.iter().zip(res) {
                for (k, bits) in vals.iter().enumerate() {
                    let v: Vec<f64> = bits.iter().map(|b| f64::from_bits(*b)).collect();
                    let l = (v.len() - 5) / 2;
                    m.eval();
                    m.count("evaluated_concurrently");
                    let hh = hash_bits(97, e.c.iter().map(|x| x.to_bits()).chain([e.kx.to_bits(), e.ky.to_bits(), e.a.to_bits(), e.b.to_bits(), e.deg, k as u64]));
                    sink.emit(json!({"t": "logint", "deg": e.deg, "c": hs(&e.c), "kx": h(e.kx), "ky": h(e.ky), "a": h(e.a), "b": h(e.b),
                        "ind": hs(&v[..l]), "F": hs(&v[l..2 * l]), "Fk": h(v[2 * l]), "Fa": h(v[2 * l + 1]), "Fb": h(v[2 * l + 2]), "Ia": h(v[2 * l + 3]), "Ib": h(v[2 * l + 4]), "h": hh, "cc": e.cc}));
                }
            }
        }
    }
}

fn concurrent10(a: &Args, m: &mut Mon, sink: &mut Sink, lo_sw: f64, hi_sw: f64) {
    let mut r = Rng::lane(a.seed, "C10", a.shard, 7);
    let n = a.n(8_000, 800_000);
    let mut jobs: Vec<ppv::conc::Job> = Vec::new();
    let mut meta: Vec<([f64; 6], f64, &'static str, &'static str)> = Vec::new();
    while (jobs.len() as u64) < n {
        let (form, fc) = quartic_form(&mut r);
        let (v, vc) = quartic_arg(&mut r, lo_sw, hi_sw);
        if !(v > 0.0) || !v.is_finite() || vc == "v_top_binades" {
            continue;
        }
        let q = IntOfLogPoly4::from_nums(&form);
        jobs.push(Box::new(move || vec![q.evaluate(v)]));
        meta.push((form, v, fc, vc));
    }
    match ppv::conc::run(&jobs, 4, if a.thorough() { 400 } else { 150 }, 4) {
        Err(pn) => m.panic("IntOfLogPoly4::evaluate panic (concurrent lane)", &pn, || json!({"lane": "concurrent"})),
        Ok((res, st)) => {
            m.add("concurrent_calls", st.calls);
            m.add("concurrent_jobs_with_more_than_one_result", st.jobs_with_more_than_one_result);
            for ((form, v, fc, vc), vals) in meta.iter().zip(res) {
                for (k, bits) in vals.iter().enumerate() {
                    m.eval();
                    m.count("evaluated_concurrently");
                    let hh = hash_bits(98, form.iter().map(|e| e.to_bits()).chain([v.to_bits(), k as u64]));
                    sink.emit(json!({"t": "q4", "f": hs(form), "v": h(*v), "r": h(f64::from_bits(bits[0])), "branch": "concurrent", "h": hh, "fc": fc, "vc": vc}));
                }
            }
        }
    }
}

fn canaries09(m: &mut Mon, sink: &mut Sink) {
    // p(L) = 1 + 2L (degree 1): G(t) = t(2L - 1); knot (2, 5)
    let g = |t: f64| t * (2.0 * t.ln() - 1.0);
    let k0 = 5.0 - g(2.0);
    let (a, b) = (0.5f64, 3.0f64);
    let mk = |fa: f64, fb: f64, fk: f64, q: [f64; 2]| json!({"t": "logint", "canary": true, "deg": 1, "c": hs(&[1.0, 2.0]), "kx": h(2.0), "ky": h(5.0), "a": h(a), "b": h(b),
        "ind": hs(&[0.0, q[0], q[1]]), "F": hs(&[k0, q[0], q[1]]), "Fk": h(fk), "Fa": h(fa), "Fb": h(fb), "Ia": h(g(a)), "Ib": h(g(b)), "h": 0, "cc": "canary"});
    // missing factor t (the D1 shape)
    sink.emit(mk(k0 + (2.0 * a.ln() - 1.0), k0 + (2.0 * b.ln() - 1.0), 5.0, [-1.0, 2.0]));
    // wrong through-knot value
    sink.emit(mk(k0 + g(a), k0 + g(b), 5.5, [-1.0, 2.0]));
    // area off by 1e-9 relative
    sink.emit(mk(k0 + g(a), k0 + g(b) * (1.0 + 1e-9), 5.0, [-1.0, 2.0]));
    // wrong recurrence coefficient with otherwise consistent values
    sink.emit(mk(k0 + g(a), k0 + g(b), 5.0, [1.0, 2.0]));
    m.canaries_fed += 4;
}

pub const FLOORS09: &[&str] = &["evaluated_concurrently", "knot_built_with_constructor", "evaluated_on_fresh_thread", "degree:0", "degree:4", "degree:8", "knot_x_not_one", "a_b_straddle_one", "a:ulps_of_1", "a:e4", "b:e-4", "a:in_0_1", "a:subnormal", "coeffs:common_scale", "coeffs:tiny_scale", "area_checked", "knot_checked", "coefficients_checked"];

pub fn drive09(a: &Args, m: &mut Mon, sink: &mut Sink) {
    m.floors(FLOORS09);
    canaries09(m, sink);
    let mut r = Rng::lane(a.seed, "C09", a.shard, 0);
    let n = a.n(6_000, 600_000);
    for _ in 0..n {
        logint_one!(m, sink, &mut r, Poly0, 0);
        logint_one!(m, sink, &mut r, Poly1, 1);
        logint_one!(m, sink, &mut r, Poly2, 2);
        logint_one!(m, sink, &mut r, Poly3, 3);
        logint_one!(m, sink, &mut r, Poly4, 4);
        logint_one!(m, sink, &mut r, Poly5, 5);
        logint_one!(m, sink, &mut r, Poly6, 6);
        logint_one!(m, sink, &mut r, Poly7, 7);
        logint_one!(m, sink, &mut r, Poly8, 8);
    }
    concurrent09(a, m, sink);
}

// ------------------------------------------------------------------------------------------ C10

fn quartic_form(r: &mut Rng) -> ([f64; 6], &'static str) {
    let (mut v, mut name) = quartic_form0(r);
    if r.chance(0.25) {
        v[0] = 0.0; // no additive constant: nothing masks the v-dependent terms
    }
    if r.chance(0.12) {
        // the whole form at a very small or very large common scale (tiny / huge u and c_j)
        let sc = 10f64.powf(r.uniform(-40.0, 40.0));
        for x in v.iter_mut() {
            *x *= sc;
        }
        name = "common_scale";
    }
    (v, name)
}

fn quartic_form0(r: &mut Rng) -> ([f64; 6], &'static str) {
    match r.below(8) {
        0 => {
            let k = r.usize(0, 5);
            let mut v = [0.0; 6];
            v[k] = if r.chance(0.5) { 1.0 } else { r.mixed(4.0) };
            (v, "one_hot")
        }
        1 => {
            // benchmark magnitudes 1e-7 .. 130
            let mut v = [0.0; 6];
            for x in v.iter_mut() {
                *x = r.sign() * 10f64.powf(r.uniform(-7.0, 2.1));
            }
            (v, "benchmark_magnitudes")
        }
        2 => {
            // the form produced by integrating a Log<Poly4> (realistic correlation between fields)
            let c: Vec<f64> = (0..5).map(|_| r.mixed(2.0)).collect();
            let f = Log(Poly4::from_nums(&c)).integral(Knot { x: r.uniform(0.8, 1.2), y: r.mixed(2.0) });
            let n = f.nums();
            ([n[0], n[1], n[2], n[3], n[4], n[5]], "from_integral")
        }
        3 => {
            let mut v = [0.0; 6];
            for x in v.iter_mut() {
                *x = r.small_int(9);
            }
            (v, "small_int")
        }
        4 => {
            let mut v = [0.0; 6];
            v[5] = r.mixed(3.0);
            v[0] = r.mixed(1.0);
            (v, "u_and_k_only")
        }
        _ => {
            let mut v = [0.0; 6];
            for x in v.iter_mut() {
                *x = r.mixed(5.0);
            }
            (v, "mixed")
        }
    }
}

fn quartic_arg(r: &mut Rng, lo_switch: f64, hi_switch: f64) -> (f64, &'static str) {
    match r.below(14) {
        13 => (f64::MAX * r.uniform(0.2, 1.0), "v_top_binades"),
        12 => (ulps(1.0, r.pick(&[-8i64, -7, -6, -5, -4, -3, -2, -1, 1, 2, 3, 4, 5, 6, 7, 8])), "v_adjacent_floats_of_1"),
        0 => (ulps_fast(1.0, r.int(-3000, 3000)), "v_ulps_of_1"),
        1 => (1.0, "v_one"),
        2 => (ulps_fast(lo_switch, r.int(-3000, 3000)), "v_ulps_of_lower_switch"),
        3 => (ulps_fast(hi_switch, r.int(-3000, 3000)), "v_ulps_of_upper_switch"),
        4 | 5 => ((-(r.uniform(-40.0, 40.0))).exp(), "x_sweep_-40_40"),
        6 => ((-(r.uniform(-2.0, 2.0))).exp(), "x_sweep_-2_2"),
        7 => (r.uniform(0.79, 1.21), "v_benchmark_range"),
        8 => (10f64.powf(r.uniform(-307.6, -5.0)), "v_tiny"),
        9 => (10f64.powf(r.uniform(5.0, 308.25)).min(f64::MAX), "v_huge"),
        10 => ((-(r.logu(3.0) * 1e-6)).exp(), "x_near_zero"),
        _ => (r.uniform(0.0, 10.0).max(1e-300), "v_moderate"),
    }
}

/// the doubles v at which x = -ln v (as computed in f64) crosses the two thresholds
pub fn switch_points() -> (f64, f64) {
    // smallest v with -ln v > -1.71 is false ... located by bisection on the computed value
    let find = |thr: f64| {
        // -ln v is decreasing in v; find the largest v with -(v.ln()) >= thr (all smaller v have larger x)
        let (mut lo, mut hi) = (1e-3f64, 1e3f64);
        for _ in 0..200 {
            let mid = f64::from_bits((lo.to_bits() + hi.to_bits()) / 2);
            if mid == lo || mid == hi {
                break;
            }
            if -(mid.ln()) >= thr {
                lo = mid;
            } else {
                hi = mid;
            }
        }
        lo
    };
    (find(-1.71), find(1.72))
}

/// (series, closed-form) call counters of the quartic form's tail helper (library hook); constant in the build
/// without hooks, where the branch taken is simply not recorded
#[cfg(feature = "hooks")]
fn branch_counts() -> (u64, u64) {
    verif_exp5_branch_counts()
}
#[cfg(not(feature = "hooks"))]
fn branch_counts() -> (u64, u64) {
    (0, 0)
}

/// evaluation through the trait from generic code (what a `Segment` / `Piecewise` holding the form does)
fn eval_generic<T: Evaluate>(t: &T, v: f64) -> f64 {
    t.evaluate(v)
}

fn canaries10(m: &mut Mon, sink: &mut Sink) {
    let form = [0.5, 1.0, -2.0, 0.25, 3.0, 7.0];
    let q = IntOfLogPoly4::from_nums(&form);
    for (v, fac) in [(0.9f64, 1.0 + 1e-11), (7.0, 1.0 + 1e-11), (1.0000000001, 1.0 + 1e-11), (40.0, 1.0 - 1e-11)] {
        let r = q.evaluate(v);
        sink.emit(json!({"t": "q4", "canary": true, "f": hs(&form), "v": h(v), "r": h(r * fac + 1e-11), "branch": "?", "h": 0, "fc": "canary", "vc": "canary"}));
    }
    sink.emit(json!({"t": "q4", "canary": true, "f": hs(&form), "v": h(1.0), "r": h(0.5000000000000001), "branch": "?", "h": 0, "fc": "canary", "vc": "canary"}));
    m.canaries_fed += 5;
}

pub const FLOORS10: &[&str] = &[
    "v:v_ulps_of_1", "v:v_adjacent_floats_of_1", "v:v_top_binades", "v:v_one", "v:v_ulps_of_lower_switch", "v:v_ulps_of_upper_switch", "v:x_sweep_-40_40", "v:v_tiny", "v:v_huge", "v:x_near_zero",
    "form:one_hot", "form:benchmark_magnitudes", "form:from_integral", "form:common_scale", "v:v_repeated", "evaluated_on_fresh_thread", "evaluated_concurrently", "called_through_trait_from_generic_code", "called_through_a_segment", "branch_series", "branch_closed_form", "checked", "v_equals_one_exact",
];

pub fn drive10(a: &Args, m: &mut Mon, sink: &mut Sink) {
    m.floors(FLOORS10);
    canaries10(m, sink);
    let mut r = Rng::lane(a.seed, "C10", a.shard, 0);
    let (lo_sw, hi_sw) = switch_points();
    m.extra.insert("switch_v_lower_threshold".into(), json!(hx(lo_sw)));
    m.extra.insert("switch_v_upper_threshold".into(), json!(hx(hi_sw)));
    if a.shard == 0 {
        let mut forms: Vec<[f64; 6]> = Vec::new();
        for k in 0..6 {
            let mut f = [0.0; 6];
            f[k] = 1.0;
            forms.push(f);
        }
        forms.push([0.0, 1.0, 1.0, 1.0, 1.0, 1.0]);
        forms.push([0.0, 1.0, -1.0, 1.0, -1.0, 1.0]);
        for form in &forms {
            for centre in [1.0, lo_sw, hi_sw] {
                for d in -8i64..=8 {
                    let v = ulps(centre, d);
                    let q = IntOfLogPoly4::from_nums(form);
                    m.eval();
                    m.count("corpus_neighbourhoods");
                    let (s0, _c0) = branch_counts();
                    let res = guard(|| q.evaluate(v));
                    let (s1, _c1) = branch_counts();
                    let branch = if s1 > s0 { "series" } else { "closed" };
                    let hh = hash_bits(101, form.iter().map(|e| e.to_bits()).chain([v.to_bits()]));
                    match res {
                        Err(pn) => m.panic("IntOfLogPoly4::evaluate panic", &pn, || json!({"f": hxs(form), "v": hx(v)})),
                        Ok(rv) => sink.emit(json!({"t": "q4", "f": hs(form), "v": h(v), "r": h(rv), "branch": branch, "h": hh, "fc": "corpus", "vc": "corpus_neighbourhood"})),
                    }
                }
            }
        }
    }
    let n = a.n(100_000, 10_000_000);
    // dense deterministic sweep of x in [-40, 40] (shard-interleaved) in addition to the random lanes
    let step = if a.thorough() { 1e-3 } else { 1e-2 };
    let mut xi = -40.0 + step * a.shard as f64;
    let mut todo = n;
    let mut prev_v = 0.0f64;
    while todo > 0 {
        todo -= 1;
        let (form, fc) = quartic_form(&mut r);
        let (v, vc) = if prev_v > 0.0 && r.chance(0.08) {
            // the same argument again with another form: adjacent pieces evaluated at a shared knot
            (prev_v, "v_repeated")
        } else if xi <= 40.0 && todo % 2 == 0 {
            let x = xi + step * r.unit() * 0.5;
            xi += step * a.nshards as f64;
            ((-x).exp(), "x_dense_sweep")
        } else {
            quartic_arg(&mut r, lo_sw, hi_sw)
        };
        if !(v > 0.0) || !v.is_finite() {
            continue;
        }
        prev_v = v;
        let mut form = form;
        if vc == "v_top_binades" {
            // keep the terms v * c_j * x^j finite: the whole form at a tiny scale (x = -ln v ~ -709)
            let sc = 10f64.powf(r.uniform(-40.0, -22.0));
            for c in form.iter_mut() {
                *c *= sc / c.abs().max(1e-3).min(1e3).max(1.0);
            }
        }
        let q = IntOfLogPoly4::from_nums(&form);
        m.eval();
        m.count(&format!("form:{}", fc));
        m.count(&format!("v:{}", vc));
        let fresh = r.below(16) == 0;
        let (s0, c0) = branch_counts();
        let res = if fresh {
            // first library call of a brand-new thread (per-thread state starts pristine there)
            m.count("evaluated_on_fresh_thread");
            guard(move || std::thread::spawn(move || q.evaluate(v)).join().map_err(|_| ()).expect("library panic on a fresh thread"))
        } else {
            match r.below(3) {
                0 => guard(|| q.evaluate(v)),
                1 => { m.count("called_through_trait_from_generic_code"); guard(|| eval_generic(&q, v)) }
                _ => { m.count("called_through_a_segment"); let sg = Segment { end: v, poly: q }; guard(|| sg.evaluate(v)) }
            }
        };
        let (s1, c1) = branch_counts();
        let branch = if fresh { "fresh-thread" } else if s1 > s0 { m.count("branch_series"); "series" } else if c1 > c0 { m.count("branch_closed_form"); "closed" } else { m.count("branch_unknown"); "?" };
        let hh = hash_bits(10, form.iter().map(|e| e.to_bits()).chain([v.to_bits()]));
        match res {
            Err(pn) => m.panic("IntOfLogPoly4::evaluate panic", &pn, || json!({"f": hxs(&form), "v": hx(v)})),
            Ok(rv) => sink.emit(json!({"t": "q4", "f": hs(&form), "v": h(v), "r": h(rv), "branch": branch, "h": hh, "fc": fc, "vc": vc})),
        }
    }    concurrent10(a, m, sink, lo_sw, hi_sw);
}
