//! C19 — Arbitrary for Piecewise<T>: error or a well-formed function, never a panic; every returned
//! value evaluates through all three paths without panic and with identical segment choice.

use ppv::flat::*;
use ppv::gen::*;
use ppv::mon::*;
use ppv::probe::tagval;
use arbitrary::{Arbitrary, Unstructured};
use piecewise_polynomial::*;
use serde_json::json;
use std::cell::Cell;

thread_local! {
    static NEXT_ID: Cell<u32> = Cell::new(0);
}

/// piece type whose `arbitrary` consumes one byte (fails when the input is exhausted) and takes a
/// fresh unique id, so every piece of every generated function is distinguishable.
#[derive(Debug, Clone, Copy, PartialEq)]
pub struct ATag {
    pub id: u32,
    pub byte: u8,
}
impl<'a> Arbitrary<'a> for ATag {
    fn arbitrary(u: &mut Unstructured<'a>) -> arbitrary::Result<Self> {
        let b = u.bytes(1)?[0];
        let id = NEXT_ID.with(|n| {
            let v = n.get();
            n.set(v.wrapping_add(1));
            v
        });
        Ok(ATag { id, byte: b })
    }
}
impl Evaluate for ATag {
    fn evaluate(&self, x: f64) -> f64 {
        tagval(self.id, x)
    }
}

/// zero-sized piece type: generating it consumes no input and needs no memory (size_of == 0)
#[derive(Debug, Clone, Copy, PartialEq)]
pub struct AZero;
impl<'a> Arbitrary<'a> for AZero {
    fn arbitrary(_u: &mut Unstructured<'a>) -> arbitrary::Result<Self> {
        Ok(AZero)
    }
}
impl Evaluate for AZero {
    fn evaluate(&self, x: f64) -> f64 {
        tagval(7, x)
    }
}

/// structured input in arbitrary-1.x's wire format for Vec<f64>: (odd flag byte, 8 LE bytes)* even flag byte
fn encode(ends: &[f64], tail: &[u8], truncate_tail: Option<usize>) -> Vec<u8> {
    let mut v = Vec::new();
    for e in ends {
        v.push(1u8);
        v.extend_from_slice(&e.to_bits().to_le_bytes());
    }
    v.push(0u8);
    let t = match truncate_tail {
        Some(k) => &tail[..k.min(tail.len())],
        None => tail,
    };
    v.extend_from_slice(t);
    v
}

fn end_value(r: &mut Rng, class: u64) -> f64 {
    match class {
        0 => r.mixed(6.0),
        1 => f64::NAN,
        2 => f64::INFINITY * r.sign(),
        3 => f64::from_bits(r.below(1 << 52).max(1)) * r.sign(),
        4 => 0.0 * r.sign(),
        5 => f64::MAX * r.sign(),
        6 => f64::MIN_POSITIVE * r.sign(),
        _ => r.raw_finite(),
    }
}

pub fn check_result<T>(m: &mut Mon, tname: &str, class: &str, bytes: &[u8], res: Result<arbitrary::Result<Piecewise<T>>, String>, evalcheck: impl Fn(&mut Mon, &Piecewise<T>))
{
    m.eval();
    m.count(&format!("input:{}", class));
    let head = &bytes[..bytes.len().min(80)];
    match res {
        Err(p) => m.panic("Arbitrary panic", &p, || json!({"type": tname, "class": class, "bytes_len": bytes.len(), "bytes_head": head})),
        Ok(Err(e)) => m.count(&format!("result:Err:{:?}", e)),
        Ok(Ok(pw)) => {
            let n = pw.segments.len();
            m.count(&format!("result:Ok:len_{}", if n == 0 { "0".to_string() } else if n == 1 { "1".into() } else if n < 10 { "2-9".into() } else if n < 100 { "10-99".into() } else { "100+".into() }));
            if n == 0 {
                m.violation("Arbitrary returns a function without segments", || json!({"type": tname, "class": class, "bytes_head": head}));
                return;
            }
            let ends: Vec<f64> = pw.segments.iter().map(|s| s.end).collect();
            if let Some(e) = ends.iter().find(|e| !e.is_normal()) {
                m.violation("Arbitrary returns a breakpoint that is not a normal float", || json!({"type": tname, "class": class, "end": hx(*e), "ends": hxs(&ends[..ends.len().min(20)]), "bytes_head": head}));
                return;
            }
            if ends.windows(2).any(|w| !(w[0] <= w[1])) {
                m.violation("Arbitrary returns decreasing breakpoints", || json!({"type": tname, "class": class, "ends": hxs(&ends[..ends.len().min(20)]), "bytes_head": head}));
                return;
            }
            if ends.windows(2).any(|w| w[0] == w[1]) {
                m.count("result_with_duplicate_ends");
            }
            evalcheck(m, &pw);
        }
    }
}

/// three evaluation paths agree (bits; NaN == NaN) and match the reference model
fn eval_paths<T: Evaluate>(m: &mut Mon, tname: &str, pw: &Piecewise<T>) {
    let ends: Vec<f64> = pw.segments.iter().map(|s| s.end).collect();
    let mut qs = if ends.len() <= 50 {
        critical_queries(&ends)
    } else {
        let mut sub: Vec<f64> = ends.iter().step_by(ends.len() / 20).cloned().collect();
        sub.push(*ends.last().unwrap());
        critical_queries(&sub)
    };
    qs.sort_by(|a, b| a.partial_cmp(b).unwrap());
    let direct: Vec<Result<f64, String>> = qs.iter().map(|x| guard(|| pw.evaluate(*x))).collect();
    let vres = guard(|| pw.evaluate_v(qs.iter().cloned()).collect::<Vec<f64>>());
    let eres = guard(|| {
        let mut ev = PiecewiseEvaluator::new(&pw.segments);
        // forward then backward
        let f: Vec<f64> = qs.iter().map(|x| ev.evaluate(*x)).collect();
        let b: Vec<f64> = qs.iter().rev().map(|x| ev.evaluate(*x)).collect();
        (f, b)
    });
    for e in ends.iter().take(3) {
        // the very first query of a fresh evaluator, exactly on a breakpoint
        let x = *e;
        m.eval();
        m.count("fresh_evaluator_first_query_on_a_breakpoint");
        let a = guard(|| PiecewiseEvaluator::new(&pw.segments).evaluate(x));
        let b = guard(|| pw.evaluate(x));
        match (a, b) {
            (Ok(a), Ok(b)) => {
                if !bits_eq(a, b) {
                    m.violation("evaluation paths disagree on an Arbitrary-generated function", || json!({"type": tname, "ends": hxs(&ends[..ends.len().min(20)]), "x": hx(x), "path": "fresh evaluator, first query"}));
                    return;
                }
            }
            (Err(p), _) | (_, Err(p)) => {
                m.panic("evaluation panics on an Arbitrary-generated function", &p, || json!({"type": tname, "x": hx(x)}));
                return;
            }
        }
    }
    for (i, x) in qs.iter().enumerate() {
        m.eval();
        let s = sel(&ends, *x);
        let exp = pw.segments[s].poly.evaluate(*x);
        let d = match &direct[i] {
            Ok(d) => *d,
            Err(p) => {
                m.panic("evaluate panics on an Arbitrary-generated function", p, || json!({"type": tname, "ends": hxs(&ends[..ends.len().min(20)]), "x": hx(*x)}));
                return;
            }
        };
        let mut bad = !bits_eq(d, exp);
        if let Ok(v) = &vres {
            bad |= v.len() != qs.len() || !bits_eq(v[i], d);
        }
        if let Ok((f, b)) = &eres {
            bad |= !bits_eq(f[i], d) || !bits_eq(b[qs.len() - 1 - i], d);
        }
        if bad {
            m.violation("evaluation paths disagree on an Arbitrary-generated function", || json!({"type": tname, "ends": hxs(&ends[..ends.len().min(20)]), "x": hx(*x), "expected_segment": s}));
            return;
        }
    }
    if let Err(p) = vres {
        m.panic("evaluate_v panics on an Arbitrary-generated function", &p, || json!({"type": tname, "ends": hxs(&ends[..ends.len().min(20)])}));
    }
    if let Err(p) = eres {
        m.panic("evaluator panics on an Arbitrary-generated function", &p, || json!({"type": tname, "ends": hxs(&ends[..ends.len().min(20)])}));
    }
    m.count("evaluated_functions");
}

fn gen_input(r: &mut Rng, maxlen: usize) -> (Vec<u8>, &'static str) {
    let tail: Vec<u8> = (0..r.usize(0, 400)).map(|_| r.next_u64() as u8).collect();
    match r.below(12) {
        0 => {
            let n = match r.below(4) {
                0 => r.usize(0, 16),
                1 => r.usize(17, 256),
                _ => r.usize(257, maxlen),
            };
            ((0..n).map(|_| r.next_u64() as u8).collect(), "random_bytes")
        }
        1 => (encode(&[], &tail, None), "empty_list"),
        2 => {
            let n = r.usize(1, 8);
            let k = r.usize(0, n - 1);
            let ends: Vec<f64> = (0..n).map(|i| if i == k { end_value(r, 1 + r.clone().below(4)) } else { end_value(r, 0) }).collect();
            (encode(&ends, &tail, None), "one_non_normal_end")
        }
        3 => {
            let n = r.usize(2, 12);
            let mut ends: Vec<f64> = (0..n).map(|_| r.mixed(6.0)).filter(|x| x.is_normal()).collect();
            ends.sort_by(|a, b| b.partial_cmp(a).unwrap());
            (encode(&ends, &tail, None), "descending_ends")
        }
        4 => {
            let ends: Vec<f64> = (0..1000).map(|_| r.logu(20.0)).collect();
            let tail: Vec<u8> = (0..r.usize(0, 12000)).map(|_| r.next_u64() as u8).collect();
            (encode(&ends, &tail, None), "thousand_ends")
        }
        5 => {
            // input exhausted in the middle of the pieces
            let n = r.usize(2, 12);
            let ends: Vec<f64> = (0..n).map(|_| r.mixed(6.0)).filter(|x| x.is_normal()).collect();
            let k = r.usize(0, n);
            (encode(&ends, &tail, Some(k.min(tail.len()))), "exhausted_in_pieces")
        }
        6 => {
            let n = if r.chance(0.3) { r.usize(17, 80) } else { r.usize(1, 10) };
            let e = r.mixed(3.0);
            let ends: Vec<f64> = (0..n).map(|_| if r.chance(0.6) { e } else { r.mixed(3.0) }).filter(|x| x.is_normal()).collect();
            (encode(&ends, &tail, None), "duplicate_ends")
        }
        7 => {
            let n = r.usize(1, 12);
            let ends: Vec<f64> = (0..n).map(|_| end_value(r, 5 + r.clone().below(3))).collect();
            (encode(&ends, &tail, None), "extreme_ends")
        }
        8 => {
            // truncated inside an end
            let n = r.usize(1, 6);
            let ends: Vec<f64> = (0..n).map(|_| r.mixed(6.0)).collect();
            let mut b = encode(&ends, &[], None);
            let cut = r.usize(0, b.len());
            b.truncate(cut);
            (b, "truncated_in_ends")
        }
        _ => {
            let n = r.usize(1, 30);
            let ends: Vec<f64> = (0..n).map(|_| r.mixed(6.0)).filter(|x| x.is_normal()).collect();
            (encode(&ends, &tail, None), "well_formed")
        }
    }
}

pub fn canaries(m: &mut Mon) {
    let mk = |ends: Vec<f64>| Piecewise { segments: ends.into_iter().enumerate().map(|(i, e)| Segment { end: e, poly: ATag { id: i as u32, byte: 0 } }).collect::<Vec<_>>() };
    m.canary(|m| check_result::<ATag>(m, "canary", "canary", &[], Ok(Ok(mk(vec![]))), |_, _| {}));
    m.canary(|m| check_result::<ATag>(m, "canary", "canary", &[], Ok(Ok(mk(vec![2.0, 1.0]))), |_, _| {}));
    m.canary(|m| check_result::<ATag>(m, "canary", "canary", &[], Ok(Ok(mk(vec![1.0, f64::INFINITY]))), |_, _| {}));
    m.canary(|m| check_result::<ATag>(m, "canary", "canary", &[], Ok(Ok(mk(vec![0.0, 1.0]))), |_, _| {}));
    m.canary(|m| check_result::<ATag>(m, "canary", "canary", &[], Err("canary".into()), |_, _| {}));
}

pub const FLOORS: &[&str] = &[
    "piece_type:AZero", "input:random_bytes", "input:empty_list", "input:one_non_normal_end", "input:descending_ends", "input:thousand_ends",
    "input:exhausted_in_pieces", "input:duplicate_ends", "input:extreme_ends", "input:truncated_in_ends", "input:well_formed",
    "result:Err:IncorrectFormat", "result:Err:NotEnoughData", "result:Ok:len_1", "result:Ok:len_2-9", "result:Ok:len_100+",
    "evaluated_functions", "result_with_duplicate_ends", "entry:arbitrary_take_rest",
];

pub fn run(a: &Args, m: &mut Mon) {
    m.floors(FLOORS);
    canaries(m);
    let mut r = Rng::lane(a.seed, "C19", a.shard, 0);
    let n = a.n(800_000, 40_000_000);
    let maxlen = if a.thorough() { 65_536 } else { 4096 };
    for k in 0..n {
        let (bytes, class) = gen_input(&mut r, maxlen);
        m.case(hash_bits(19, bytes.chunks(8).map(|c| {
            let mut b = [0u8; 8];
            b[..c.len()].copy_from_slice(c);
            u64::from_le_bytes(b)
        }).chain([bytes.len() as u64])));
        macro_rules! go {
            ($t:ty, $name:expr) => {{
                let res = guard(|| <Piecewise<$t>>::arbitrary(&mut Unstructured::new(&bytes)));
                check_result::<$t>(m, $name, class, &bytes, res, |m, pw| eval_paths(m, $name, pw));
                m.count(&format!("piece_type:{}", $name));
                if k % 3 == 0 {
                    // the by-value entry point of the same trait impl (defaults to `arbitrary`, may be overridden)
                    let res = guard(|| <Piecewise<$t>>::arbitrary_take_rest(Unstructured::new(&bytes)));
                    m.count("entry:arbitrary_take_rest");
                    check_result::<$t>(m, $name, class, &bytes, res, |m, pw| eval_paths(m, $name, pw));
                    if let Err(p) = guard(|| <Piecewise<$t>>::size_hint(0)) {
                        m.panic("Arbitrary::size_hint panic", &p, || json!({"type": $name}));
                    }
                }
            }};
        }
        match k % 12 {
            0 | 1 | 2 => go!(ATag, "ATag"),
            3 => go!(Poly0, "Poly0"),
            4 => go!(Poly1, "Poly1"),
            5 => go!(Poly2, "Poly2"),
            6 => go!(Poly3, "Poly3"),
            7 => go!(Poly4, "Poly4"),
            8 => match r.below(4) {
                0 => go!(Poly5, "Poly5"),
                1 => go!(Poly6, "Poly6"),
                2 => go!(Poly7, "Poly7"),
                _ => go!(Poly8, "Poly8"),
            },
            9 => go!(PolyN, "PolyN"),
            10 => go!(AZero, "AZero"),
            _ => go!(ATag, "ATag"),
        }
        if k < 6 {
            let b = bytes.clone();
            m.sample(&format!("input:{}", class), 1, || json!({"class": class, "bytes_len": b.len(), "bytes_head": &b[..b.len().min(40)]}));
        }
    }
}
