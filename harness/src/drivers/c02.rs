//! C02 — Piecewise::evaluate selects the half-open segment containing x.
//! Online monitor: reference model `sel` + tag pieces (value reveals the piece) + real piece types.

use ppv::flat::*;
use ppv::gen::*;
use ppv::mon::*;
use ppv::probe::*;
use piecewise_polynomial::*;
use serde_json::json;

pub fn classify(m: &mut Mon, ends: &[f64], x: f64) {
    let n = ends.len();
    if ends.iter().any(|e| *e == x) {
        m.count("x_equals_an_end");
    }
    if x < ends[0] {
        m.count("first_segment_extrapolation");
    }
    if !(ends[n - 1] > x) {
        m.count("fallback_to_last");
    }
    if x.is_infinite() {
        m.count("x_infinite");
    }
    let s = sel(ends, x);
    if s > 0 && ends[s - 1] == ends[s] {
        m.count("selected_after_duplicate_end");
    }
    if s + 1 < n && ends[s] == ends[s + 1] {
        m.count("selected_first_of_duplicates");
    }
    if s > 0 && ends[s - 1].next_up() == x {
        m.count("x_one_ulp_above_end");
    }
    if ends[s].next_down() == x {
        m.count("x_one_ulp_below_end");
    }
}

pub fn check_tag_point(m: &mut Mon, what: &str, ends: &[f64], x: f64, got: Result<f64, String>) {
    m.eval();
    let s = sel(ends, x);
    match got {
        Err(p) => m.panic(&format!("{} panic", what), &p, || {
            json!({"ends": hxs(ends), "x": hx(x), "expected_segment": s})
        }),
        Ok(v) => {
            let exp = tagval(s as u32, x);
            if v.to_bits() != exp.to_bits() {
                let which: Vec<usize> = (0..ends.len())
                    .filter(|i| tagval(*i as u32, x).to_bits() == v.to_bits())
                    .collect();
                let class = if which.is_empty() {
                    "value-of-no-segment-at-x".to_string()
                } else if which[0] < s {
                    "earlier-segment".to_string()
                } else {
                    "later-segment".to_string()
                };
                m.violation(&format!("{} wrong-segment {}", what, class), || {
                    json!({"ends": hxs(ends), "ends_v": ends, "x": hx(x), "x_v": format!("{:e}", x),
                           "expected_segment": s, "observed_segment": which, "observed_bits": hx(v)})
                });
            }
        }
    }
}

fn tag_function(m: &mut Mon, ends: &[f64], extra: &[f64]) {
    let pw = tag_pw(ends);
    let mut qs = critical_queries(ends);
    qs.extend_from_slice(extra);
    m.case(hash_bits(2, ends.iter().map(|e| e.to_bits())));
    m.count("functions_tag");
    if ends.len() == 1 {
        m.count("single_segment_function");
    }
    for &x in &qs {
        if x.is_nan() {
            continue;
        }
        classify(m, ends, x);
        let got = guard(|| pw.evaluate(x));
        check_tag_point(m, "Piecewise::evaluate", ends, x, got);
    }
    m.sample("tag", 3, || {
        let x = qs[qs.len() / 2];
        json!({"ends": ends, "x": x, "selected": sel(ends, x), "queries": qs.len()})
    });
}

/// Pieces that are themselves piecewise functions (`Piecewise<T>` implements `Evaluate`, so `Piecewise<Piecewise<T>>`
/// is an ordinary instance of the generic code; evaluation re-enters `Piecewise::evaluate` while the outer call is
/// still running). Inner tag ids are offset per outer piece, so the value identifies (outer piece, inner piece, x).
fn nested_function(m: &mut Mon, r: &mut Rng) {
    let no = r.usize(1, 6);
    let outer = gen_ends_any(r, no).0;
    let inner: Vec<Vec<f64>> = (0..no).map(|_| { let k = r.usize(1, 5); gen_ends_any(r, k).0 }).collect();
    let pw: Piecewise<Piecewise<Tag>> = Piecewise {
        segments: outer.iter().enumerate().map(|(i, e)| Segment {
            end: *e,
            poly: Piecewise { segments: inner[i].iter().enumerate().map(|(j, ie)| Segment { end: *ie, poly: Tag { id: (i * 100 + j) as u32 } }).collect() },
        }).collect(),
    };
    m.count("functions_nested");
    m.case(hash_bits(22, outer.iter().chain(inner.iter().flatten()).map(|e| e.to_bits())));
    let mut qs = critical_queries(&outer);
    for ie in &inner {
        qs.extend_from_slice(ie);
    }
    for &x in &qs {
        if x.is_nan() {
            continue;
        }
        m.eval();
        let so = sel(&outer, x);
        let si = sel(&inner[so], x);
        let exp = tagval((so * 100 + si) as u32, x);
        match guard(|| pw.evaluate(x)) {
            Err(p) => m.panic("Piecewise::evaluate panic (nested piecewise pieces)", &p, || json!({"outer": hxs(&outer), "x": hx(x)})),
            Ok(v) => {
                if v.to_bits() != exp.to_bits() {
                    m.violation("Piecewise::evaluate wrong-segment (nested piecewise pieces)", || {
                        json!({"outer": hxs(&outer), "inner": inner.iter().map(|e| hxs(e)).collect::<Vec<_>>(), "x": hx(x), "expected_outer": so, "expected_inner": si, "observed_bits": hx(v)})
                    });
                }
            }
        }
    }
}

// Real piece types are exercised through a macro (concrete types, method-call syntax) rather than a generic function:
// user code calls `f.evaluate(x)` on a concrete `Piecewise<Poly1>`, where an inherent method would shadow the trait's.
macro_rules! real_function {
    ($t:ty, $m:expr, $r:expr, $positive:expr) => {{
        type T = $t;
        let m: &mut Mon = $m;
        let r: &mut Rng = $r;
        let positive: bool = $positive;
    let n = match r.below(10) {
        0 => 1,
        1..=6 => r.usize(2, 8),
        _ => r.usize(9, 64),
    };
    let ends = if positive {
        let c = r.pick(&[EndsClass::Positive, EndsClass::Bench]);
        gen_ends(r, n, c)
    } else {
        gen_ends_any(r, n).0
    };
    let n = ends.len();
    let mut coeffs: Vec<Vec<f64>> = (0..n)
        .map(|_| (0..<T as Nums>::LEN).map(|_| r.mixed(2.0)).collect())
        .collect();
    repeat_some_pieces(r, &mut coeffs);
    let pw: Piecewise<T> = pw_from(&ends, &coeffs);
    let mut h = hash_bits(3, pw_nums(&pw).iter().map(|e| e.to_bits()));
    h = mix2(h, <T as Nums>::NAME.len() as u64 ^ (<T as Nums>::LEN as u64) << 8);
    m.case(h);
    m.count(&format!("functions_real:{}", <T as Nums>::NAME));
    for x in critical_queries(&ends) {
        classify(m, &ends, x);
        m.eval();
        let s = sel(&ends, x);
        let exp = match guard(|| pw.segments[s].poly.evaluate(x)) {
            Ok(v) => v,
            Err(p) => {
                m.panic("piece evaluate panic", &p, || json!({"type": <T as Nums>::NAME, "x": hx(x)}));
                continue;
            }
        };
        match guard(|| pw.evaluate(x)) {
            Err(p) => m.panic("Piecewise::evaluate panic", &p, || {
                json!({"type": <T as Nums>::NAME, "ends": hxs(&ends), "x": hx(x)})
            }),
            Ok(v) => {
                if !bits_eq(v, exp) {
                    m.violation("Piecewise::evaluate real-piece value differs from selected piece", || {
                        json!({"type": <T as Nums>::NAME, "ends": hxs(&ends), "coeffs": coeffs.iter().map(|c| hxs(c)).collect::<Vec<_>>(),
                               "x": hx(x), "expected_segment": s, "expected_bits": hx(exp), "observed_bits": hx(v)})
                    });
                }
            }
        }
    }
    m.sample(&format!("real:{}", <T as Nums>::NAME), 1, || json!({"type": <T as Nums>::NAME, "ends": ends, "first_piece": coeffs[0]}));
    }};
}

pub fn small_scope(m: &mut Mon) {
    // all non-decreasing end vectors over a 6-value alphabet with <= 5 segments, all critical queries
    let one = 1.0f64;
    let alpha = [-1.0, -0.0, 0.0, one, one.next_up(), 2.5];
    fn rec(m: &mut Mon, alpha: &[f64], cur: &mut Vec<f64>, start: usize, maxlen: usize) {
        if !cur.is_empty() {
            tag_function(m, cur, alpha);
            m.count("small_scope_functions");
        }
        if cur.len() == maxlen {
            return;
        }
        for i in start..alpha.len() {
            // -0.0 then 0.0 is non-decreasing numerically; 0.0 then -0.0 as well, but keep index order
            cur.push(alpha[i]);
            rec(m, alpha, cur, i, maxlen);
            cur.pop();
        }
    }
    let mut cur = Vec::new();
    rec(m, &alpha, &mut cur, 0, 5);
}

pub fn canaries(m: &mut Mon) {
    let ends = [1.0, 2.0, 2.0, 3.0];
    for (x, wrong) in [(2.0, 2u32), (0.5, 1), (5.0, 2), (1.0, 0)] {
        m.canary(|m| check_tag_point(m, "canary", &ends, x, Ok(tagval(wrong, x))));
    }
    m.canary(|m| check_tag_point(m, "canary", &ends, 1.5, Err("canary panic".into())));
}

pub fn run(a: &Args, m: &mut Mon) {
    m.floors(FLOORS);
    let mut r = Rng::lane(a.seed, "C02", a.shard, 0);
    if a.shard == 0 {
        small_scope(m);
        // one function longer than 2^16 segments (size-gated fast paths, 16-bit indices)
        let big: Vec<f64> = (0..70_001).map(|i| (i / 3) as f64 * 0.5).collect();
        tag_function(m, &big, &[]);
        m.count("function_longer_than_65536");
    }
    canaries(m);
    let nfun = a.n(400_000, 20_000_000);
    for k in 0..nfun {
        let n = match r.below(12) {
            0 => 1,
            1..=7 => r.usize(2, 8),
            8..=10 => r.usize(9, 64),
            _ => {
                if k % 50 == 0 {
                    r.usize(1000, 10_000)
                } else {
                    r.usize(65, 200)
                }
            }
        };
        let (ends, _c) = gen_ends_any(&mut r, n);
        let extra: Vec<f64> = (0..4)
            .map(|_| r.uniform(ends[0].max(-1e300), ends[ends.len() - 1].min(1e300)))
            .filter(|x| !x.is_nan())
            .collect();
        tag_function(m, &ends, &extra);
        if k % 8 == 0 {
            nested_function(m, &mut r);
        }
        if k % 4 == 0 {
            macro_rules! go {
                ($t:ident) => {
                    match r.below(3) {
                        0 => real_function!($t, m, &mut r, false),
                        1 => real_function!(Log<$t>, m, &mut r, true),
                        _ => real_function!(IntOfLog<$t>, m, &mut r, true),
                    }
                };
            }
            match r.below(10) {
                0 => go!(Poly0),
                1 => go!(Poly1),
                2 => go!(Poly2),
                3 => go!(Poly3),
                4 => go!(Poly4),
                5 => go!(Poly5),
                6 => go!(Poly6),
                7 => go!(Poly7),
                8 => go!(Poly8),
                _ => real_function!(IntOfLogPoly4, m, &mut r, true),
            }
        }
    }
}

pub const FLOORS: &[&str] = &[
    "x_equals_an_end",
    "first_segment_extrapolation",
    "fallback_to_last",
    "x_infinite",
    "selected_after_duplicate_end",
    "selected_first_of_duplicates",
    "x_one_ulp_above_end",
    "x_one_ulp_below_end",
    "single_segment_function",
    "functions_nested",
];
