//! C18 — serialization round-trips every value bit for bit (serde: JSON text + CBOR binary;
//! borsh when the harness is built with the `borsh` feature, which enables the library's).

use ppv::flat::*;
use ppv::gen::*;
use ppv::mon::*;
use piecewise_polynomial::*;
use serde::{de::DeserializeOwned, Serialize};
use serde_json::json;

fn value(r: &mut Rng, finite_only: bool) -> f64 {
    loop {
        let v = match r.below(14) {
            0 => 0.0,
            1 => -0.0,
            2 => f64::MAX,
            3 => f64::MIN,
            4 => f64::MIN_POSITIVE,
            5 => f64::from_bits(r.below(1 << 52).max(1)) * r.sign(), // subnormal
            6 => f64::INFINITY,
            7 => f64::NEG_INFINITY,
            8 => r.raw_finite(),
            9 => r.raw_finite(),
            10 => r.small_int(1000),
            11 => 0.1 * r.small_int(100),
            _ => r.mixed(300.0),
        };
        if v.is_nan() || (finite_only && !v.is_finite()) {
            continue;
        }
        return v;
    }
}

pub trait Flat {
    fn flat(&self) -> Vec<f64>;
}
impl<T: Nums> Flat for T {
    fn flat(&self) -> Vec<f64> {
        self.nums()
    }
}
pub struct PwWrap<'a, T>(pub &'a Piecewise<T>);

fn compare(m: &mut Mon, format: &str, tname: &str, before: &[f64], after: Result<(Vec<f64>, bool), String>) {
    m.eval();
    m.count(&format!("{}:{}", format, tname));
    match after {
        Err(e) => {
            let panic = e.starts_with("PANIC:");
            let sig = if panic { format!("{} round trip panic", format) } else { format!("{} round trip fails with an error", format) };
            let b = before.to_vec();
            if panic {
                m.panic(&sig, &e, || json!({"type": tname, "numbers": hxs(&b)}));
            } else {
                m.violation(&sig, || json!({"type": tname, "numbers": hxs(&b[..b.len().min(40)]), "error": e}));
            }
        }
        Ok((a, eq)) => {
            if a.len() != before.len() {
                m.violation(&format!("{} round trip changes the number of values", format), || {
                    json!({"type": tname, "before_len": before.len(), "after_len": a.len()})
                });
            } else if let Some(i) = (0..a.len()).find(|i| a[*i].to_bits() != before[*i].to_bits()) {
                m.violation(&format!("{} round trip changes a number", format), || {
                    json!({"type": tname, "position": i, "before": hx(before[i]), "after": hx(a[i]), "n_values": a.len()})
                });
            } else if !eq {
                m.violation(&format!("{} round trip value not == original", format), || json!({"type": tname, "numbers": hxs(&before[..before.len().min(40)])}));
            }
        }
    }
}

/// The value embedded in a caller's own serde types whose derive buffers the content before handing it on (internally
/// tagged enum, untagged enum, flattened struct) — the buffering deserializer is format-agnostic and always reports
/// "human readable".
#[derive(Serialize)]
#[serde(tag = "kind")]
enum TaggedS<'a, V> {
    Curve { f: &'a V },
}
#[derive(serde::Deserialize)]
#[serde(tag = "kind")]
enum TaggedD<V> {
    Curve { f: V },
}
#[derive(Serialize)]
#[serde(untagged)]
enum UntaggedS<'a, V> {
    A(&'a V),
}
#[derive(serde::Deserialize)]
#[serde(untagged)]
enum UntaggedD<V> {
    A(V),
}
#[derive(Serialize)]
struct InnerS<'a, V> {
    f: &'a V,
}
#[derive(serde::Deserialize)]
struct InnerD<V> {
    f: V,
}
#[derive(Serialize)]
struct FlatS<'a, V> {
    id: u32,
    #[serde(flatten)]
    inner: InnerS<'a, V>,
}
#[derive(serde::Deserialize)]
struct FlatD<V> {
    id: u32,
    #[serde(flatten)]
    inner: InnerD<V>,
}

/// round trips of the embedded value; `ser` / `de` are the format's entry points
macro_rules! embedded {
    ($v:expr, $flat:expr, $w:expr, $ser:path, $de:path, $fmt:expr) => {{
        let want: Vec<u64> = $flat(&$w).iter().map(|x| x.to_bits()).collect();
        let same = |got: &V| $flat(got).iter().map(|x| x.to_bits()).eq(want.iter().copied());
        let b = $ser(&TaggedS::Curve { f: $v }).map_err(|e| format!("serialize inside an internally tagged enum: {}", e))?;
        let TaggedD::Curve { f } = $de(&b).map_err(|e| format!("deserialize inside an internally tagged enum ({}): {}", $fmt, e))?;
        if !same(&f) {
            return Err(format!("value changes inside an internally tagged enum ({})", $fmt));
        }
        let b = $ser(&UntaggedS::A($v)).map_err(|e| format!("serialize inside an untagged enum: {}", e))?;
        let UntaggedD::A(f) = $de(&b).map_err(|e| format!("deserialize inside an untagged enum ({}): {}", $fmt, e))?;
        if !same(&f) {
            return Err(format!("value changes inside an untagged enum ({})", $fmt));
        }
        let b = $ser(&FlatS { id: 7, inner: InnerS { f: $v } }).map_err(|e| format!("serialize inside a flattened struct: {}", e))?;
        let fd: FlatD<V> = $de(&b).map_err(|e| format!("deserialize inside a flattened struct ({}): {}", $fmt, e))?;
        if !same(&fd.inner.f) || fd.id != 7 {
            return Err(format!("value changes inside a flattened struct ({})", $fmt));
        }
    }};
}

thread_local! {
    /// the previously decoded value of every type: the place the next value of that type is decoded INTO
    static PREV: std::cell::RefCell<std::collections::HashMap<std::any::TypeId, Box<dyn std::any::Any>>> = std::cell::RefCell::new(std::collections::HashMap::new());
}

fn rt_json<V: Serialize + DeserializeOwned + PartialEq + 'static>(v: &V, flat: impl Fn(&V) -> Vec<f64>) -> Result<(Vec<f64>, bool), String> {
    match guard(|| -> Result<(Vec<f64>, bool), String> {
        let s = serde_json::to_string(v).map_err(|e| format!("serialize: {}", e))?;
        let w: V = serde_json::from_str(&s).map_err(|e| format!("deserialize: {}", e))?;
        // reload into an existing value of the same type (the previous one decoded on this thread; it may hold more or
        // fewer pieces): what `Deserialize::deserialize_in_place` and serde's in-place Vec<V> impl do
        let prev = PREV.with(|p| p.borrow_mut().remove(&std::any::TypeId::of::<V>()));
        if let Some(mut place) = prev.and_then(|b| b.downcast::<V>().ok()) {
            let mut de = serde_json::Deserializer::from_str(&s);
            serde::Deserialize::deserialize_in_place(&mut de, &mut *place).map_err(|e| format!("deserialize in place: {}", e))?;
            if flat(&place).iter().map(|x| x.to_bits()).ne(flat(&w).iter().map(|x| x.to_bits())) {
                return Err("deserialize in place (into an existing value) gives a different value than a fresh deserialize".to_string());
            }
        }
        embedded!(v, flat, w, serde_json::to_vec, serde_json::from_slice, "json");
        let keep: V = serde_json::from_str(&s).map_err(|e| format!("deserialize: {}", e))?;
        PREV.with(|p| p.borrow_mut().insert(std::any::TypeId::of::<V>(), Box::new(keep)));
        // the same text through an io::Read source (a file, a socket): no borrowing from the input is possible there
        let w2: V = serde_json::from_reader(s.as_bytes()).map_err(|e| format!("deserialize from a reader: {}", e))?;
        if flat(&w2).iter().map(|x| x.to_bits()).ne(flat(&w).iter().map(|x| x.to_bits())) {
            return Err("deserialize from a reader gives a different value than from a string".to_string());
        }
        Ok((flat(&w), &w == v))
    }) {
        Ok(r) => r,
        Err(p) => Err(format!("PANIC:{}", p)),
    }
}
fn rt_cbor<V: Serialize + DeserializeOwned + PartialEq>(v: &V, flat: impl Fn(&V) -> Vec<f64>) -> Result<(Vec<f64>, bool), String> {
    match guard(|| -> Result<(Vec<f64>, bool), String> {
        let s = serde_cbor::to_vec(v).map_err(|e| format!("serialize: {}", e))?;
        let w: V = serde_cbor::from_slice(&s).map_err(|e| format!("deserialize: {}", e))?;
        let w2: V = serde_cbor::from_reader(&s[..]).map_err(|e| format!("deserialize from a reader: {}", e))?;
        if flat(&w2).iter().map(|x| x.to_bits()).ne(flat(&w).iter().map(|x| x.to_bits())) {
            return Err("deserialize from a reader gives a different value than from a slice".to_string());
        }
        embedded!(v, flat, w, serde_cbor::to_vec, serde_cbor::from_slice, "cbor");
        Ok((flat(&w), &w == v))
    }) {
        Ok(r) => r,
        Err(p) => Err(format!("PANIC:{}", p)),
    }
}
/// a reader that hands out the bytes in small irregular chunks (a pipe, a socket, a buffered file): `read` may
/// return fewer bytes than asked for without being at the end
#[cfg(feature = "borsh")]
struct ChunkReader<'a> {
    data: &'a [u8],
    pos: usize,
    k: usize,
}
#[cfg(feature = "borsh")]
impl<'a> borsh::io::Read for ChunkReader<'a> {
    fn read(&mut self, buf: &mut [u8]) -> borsh::io::Result<usize> {
        self.k = (self.k * 7 + 3) % 13;
        let n = buf.len().min(self.k + 1).min(self.data.len() - self.pos);
        buf[..n].copy_from_slice(&self.data[self.pos..self.pos + n]);
        self.pos += n;
        Ok(n)
    }
}

#[cfg(feature = "borsh")]
fn rt_borsh<V: borsh::BorshSerialize + borsh::BorshDeserialize + PartialEq>(v: &V, flat: impl Fn(&V) -> Vec<f64>) -> Result<(Vec<f64>, bool), String> {
    match guard(|| -> Result<(Vec<f64>, bool), String> {
        let s = borsh::to_vec(v).map_err(|e| format!("serialize: {}", e))?;
        let w: V = borsh::from_slice(&s).map_err(|e| format!("deserialize: {}", e))?;
        // the same bytes through a reader that answers reads partially must give the same value
        let mut rd = ChunkReader { data: &s, pos: 0, k: s.len() % 11 };
        let w2: V = borsh::from_reader(&mut rd).map_err(|e| format!("deserialize from a chunked reader: {}", e))?;
        if flat(&w2).iter().map(|x| x.to_bits()).ne(flat(&w).iter().map(|x| x.to_bits())) {
            return Err("deserialize from a chunked reader gives a different value than from a slice".to_string());
        }
        // the value followed by other data in the same stream (a field of a larger record, two values back to back):
        // decoding must consume exactly its own bytes
        let mut buf = s.clone();
        buf.extend_from_slice(&borsh::to_vec(&0xDEAD_BEEFu32).map_err(|e| format!("serialize: {}", e))?);
        buf.extend_from_slice(&s);
        buf.extend((0..2048u32).map(|i| (i % 251) as u8));
        let mut rd = &buf[..];
        let a: V = borsh::BorshDeserialize::deserialize_reader(&mut rd).map_err(|e| format!("deserialize (value followed by other data): {}", e))?;
        let tag: u32 = borsh::BorshDeserialize::deserialize_reader(&mut rd).map_err(|e| format!("deserialize (the data after the value): {}", e))?;
        let b: V = borsh::BorshDeserialize::deserialize_reader(&mut rd).map_err(|e| format!("deserialize (second value in the stream): {}", e))?;
        let same = |q: &V| flat(q).iter().map(|x| x.to_bits()).eq(flat(&w).iter().map(|x| x.to_bits()));
        if tag != 0xDEAD_BEEF || rd.len() != 2048 || !same(&a) || !same(&b) {
            return Err("decoding a value that is followed by other data does not consume exactly its own bytes".to_string());
        }
        Ok((flat(&w), &w == v))
    }) {
        Ok(r) => r,
        Err(p) => Err(format!("PANIC:{}", p)),
    }
}

/// Run-time dispatch on "does this type implement the (de)serialization traits at all" (autoref
/// specialisation; only valid at call sites with concrete types, which all of ours are): a type that lost a
/// derive still lets the harness build, and the missing round trip is reported as an observation.
pub struct Wrap<'a, V>(pub &'a V, pub &'a dyn Fn(&V) -> Vec<f64>);
pub type Rt = Option<Result<(Vec<f64>, bool), String>>;

pub trait SerdeYes {
    fn json_rt(&self) -> Rt;
    fn cbor_rt(&self) -> Rt;
}
impl<'a, V: Serialize + DeserializeOwned + PartialEq + 'static> SerdeYes for Wrap<'a, V> {
    fn json_rt(&self) -> Rt {
        Some(rt_json(self.0, |w| (self.1)(w)))
    }
    fn cbor_rt(&self) -> Rt {
        Some(rt_cbor(self.0, |w| (self.1)(w)))
    }
}
pub trait SerdeNo {
    fn json_rt(&self) -> Rt {
        None
    }
    fn cbor_rt(&self) -> Rt {
        None
    }
}
impl<'a, V> SerdeNo for &Wrap<'a, V> {}

#[cfg(feature = "borsh")]
pub trait BorshYes {
    fn borsh_rt(&self) -> Rt;
}
#[cfg(feature = "borsh")]
impl<'a, V: borsh::BorshSerialize + borsh::BorshDeserialize + PartialEq> BorshYes for Wrap<'a, V> {
    fn borsh_rt(&self) -> Rt {
        Some(rt_borsh(self.0, |w| (self.1)(w)))
    }
}
pub trait BorshNo {
    fn borsh_rt(&self) -> Rt {
        None
    }
}
impl<'a, V> BorshNo for &Wrap<'a, V> {}

fn compare_opt(m: &mut Mon, format: &str, tname: &str, before: &[f64], rt: Rt) {
    match rt {
        Some(r) => compare(m, format, tname, before, r),
        None => {
            m.eval();
            m.count(&format!("{}:{}", format, tname));
            m.violation(&format!("{} round trip impossible: the type does not implement both serialization traits", format), || {
                json!({"type": tname, "format": format})
            });
        }
    }
}

#[cfg(not(feature = "borsh"))]
macro_rules! borsh_lane {
    ($m:expr, $v:expr, $flat:expr, $name:expr, $before:expr) => {};
}
#[cfg(feature = "borsh")]
macro_rules! borsh_lane {
    ($m:expr, $v:expr, $flat:expr, $name:expr, $before:expr) => {
        compare_opt($m, "borsh", $name, $before, (&Wrap($v, &$flat)).borsh_rt());
    };
}

macro_rules! family {
    ($m:expr, $r:expr, $t:ty) => {{
        let m: &mut Mon = $m;
        let r: &mut Rng = $r;
        type T = $t;
        let name = <T as Nums>::NAME;
        // the function itself, binary formats: every non-NaN double
        let nums: Vec<f64> = (0..<T as Nums>::LEN).map(|_| value(r, false)).collect();
        let v = T::from_nums(&nums);
        m.case(hash_bits(18, nums.iter().map(|e| e.to_bits()).chain([<T as Nums>::LEN as u64, name.len() as u64])));
        compare_opt(m, "cbor", name, &nums, (&Wrap(&v, &|w: &T| w.nums())).cbor_rt());
        borsh_lane!(m, &v, |w: &T| w.nums(), name, &nums);
        // text format: finite only
        let numsf: Vec<f64> = (0..<T as Nums>::LEN).map(|_| value(r, true)).collect();
        let vf = T::from_nums(&numsf);
        compare_opt(m, "json", name, &numsf, (&Wrap(&vf, &|w: &T| w.nums())).json_rt());
        // Segment<T>
        let sn: Vec<f64> = (0..<T as Nums>::LEN + 1).map(|_| value(r, false)).collect();
        let sv = Segment::<T>::from_nums(&sn);
        compare_opt(m, "cbor", "Segment", &sn, (&Wrap(&sv, &|w: &Segment<T>| w.nums())).cbor_rt());
        borsh_lane!(m, &sv, |w: &Segment<T>| w.nums(), "Segment", &sn);
        let snf: Vec<f64> = (0..<T as Nums>::LEN + 1).map(|_| value(r, true)).collect();
        let svf = Segment::<T>::from_nums(&snf);
        compare_opt(m, "json", "Segment", &snf, (&Wrap(&svf, &|w: &Segment<T>| w.nums())).json_rt());
        // Piecewise<T> with 0..200 segments
        let n = match r.below(10) { 0 => 0, 1 => 1, 2 => r.usize(50, 200), _ => r.usize(2, 12) };
        m.count(&format!("piecewise_segments:{}", if n == 0 { "0" } else if n == 1 { "1" } else if n < 50 { "2-49" } else { "50-200" }));
        let pn: Vec<f64> = (0..n * (<T as Nums>::LEN + 1)).map(|_| value(r, false)).collect();
        let pv: Piecewise<T> = Piecewise { segments: pn.chunks(<T as Nums>::LEN + 1).map(|c| Segment::<T>::from_nums(c)).collect() };
        m.case(hash_bits(181, pn.iter().map(|e| e.to_bits()).chain([n as u64, name.len() as u64])));
        compare_opt(m, "cbor", "Piecewise", &pn, (&Wrap(&pv, &|w: &Piecewise<T>| pw_nums(w))).cbor_rt());
        borsh_lane!(m, &pv, |w: &Piecewise<T>| pw_nums(w), "Piecewise", &pn);
        let pnf: Vec<f64> = pn.iter().map(|x| if x.is_finite() { *x } else { value(r, true) }).collect();
        let pvf: Piecewise<T> = Piecewise { segments: pnf.chunks(<T as Nums>::LEN + 1).map(|c| Segment::<T>::from_nums(c)).collect() };
        compare_opt(m, "json", "Piecewise", &pnf, (&Wrap(&pvf, &|w: &Piecewise<T>| pw_nums(w))).json_rt());
        m.sample(&format!("family:{}", name), 1, || json!({"type": name, "numbers": nums, "piecewise_segments": n}));
    }};
}

#[cfg(feature = "borsh")]
fn failed_serialization(m: &mut Mon) {
    // borsh refuses NaN: the error itself is documented behaviour and not judged; later round trips are
    let bad: Piecewise<Poly1> = Piecewise { segments: (0..40).map(|i| Segment { end: i as f64, poly: Poly1([if i == 37 { f64::NAN } else { 1.0 }, 2.0]) }).collect() };
    let r = guard(|| borsh::to_vec(&bad).is_err());
    m.count("borsh_serialization_of_nan_attempted");
    if let Ok(true) = r {
        m.count("borsh_serialization_of_nan_refused");
    }
}
#[cfg(not(feature = "borsh"))]
fn failed_serialization(_m: &mut Mon) {}

fn knot(m: &mut Mon, r: &mut Rng) {
    let nums = vec![value(r, false), value(r, false)];
    let v = Knot::from_nums(&nums);
    m.case(hash_bits(182, nums.iter().map(|e| e.to_bits())));
    compare_opt(m, "cbor", "Knot", &nums, (&Wrap(&v, &|w: &Knot| w.nums())).cbor_rt());
    borsh_lane!(m, &v, |w: &Knot| w.nums(), "Knot", &nums);
    let numsf = vec![value(r, true), value(r, true)];
    let vf = Knot::from_nums(&numsf);
    compare_opt(m, "json", "Knot", &numsf, (&Wrap(&vf, &|w: &Knot| w.nums())).json_rt());
}

pub fn canaries(m: &mut Mon) {
    let before = [1.0, 2.0, 3.0];
    m.canary(|m| compare(m, "canary", "canary", &before, Ok((vec![1.0, 2.0, f64::from_bits(3.0f64.to_bits() ^ 1)], true))));
    m.canary(|m| compare(m, "canary", "canary", &before, Ok((vec![1.0, 2.0], true))));
    m.canary(|m| compare(m, "canary", "canary", &before, Err("deserialize: canary".into())));
    m.canary(|m| compare(m, "canary", "canary", &[0.0], Ok((vec![-0.0], true))));
}

pub fn floors() -> Vec<&'static str> {
    let mut f = vec![
        "json:Knot", "cbor:Knot", "json:Poly0", "cbor:Poly8", "json:Log<Poly3>", "cbor:IntOfLog<Poly5>", "json:IntOfLogPoly4",
        "cbor:IntOfLogPoly4", "json:Segment", "cbor:Segment", "json:Piecewise", "cbor:Piecewise",
        "piecewise_segments:0", "piecewise_segments:1", "piecewise_segments:50-200", "piecewise_segments:4096+",
    ];
    if cfg!(feature = "borsh") {
        f.extend(["borsh:Knot", "borsh:Poly4", "borsh:Log<Poly8>", "borsh:IntOfLog<Poly0>", "borsh:IntOfLogPoly4", "borsh:Segment", "borsh:Piecewise"]);
    }
    f
}

/// "any number of segments": a few very long functions through every format (length prefixes, buffers)
fn large(m: &mut Mon, r: &mut Rng) {
    for n in [4096usize, 4097, 5000, 65_537, 100_003] {
        macro_rules! big {
            ($t:ty) => {{
                type T = $t;
                let name = <T as Nums>::NAME;
                let pn: Vec<f64> = (0..n * (<T as Nums>::LEN + 1)).map(|_| value(r, true)).collect();
                let pv: Piecewise<T> = Piecewise { segments: pn.chunks(<T as Nums>::LEN + 1).map(|c| Segment::<T>::from_nums(c)).collect() };
                m.case(hash_bits(183, [n as u64, name.len() as u64, pn[0].to_bits(), pn[pn.len() - 1].to_bits()]));
                m.count("piecewise_segments:4096+");
                compare_opt(m, "cbor", "Piecewise", &pn, (&Wrap(&pv, &|w: &Piecewise<T>| pw_nums(w))).cbor_rt());
                compare_opt(m, "json", "Piecewise", &pn, (&Wrap(&pv, &|w: &Piecewise<T>| pw_nums(w))).json_rt());
                borsh_lane!(m, &pv, |w: &Piecewise<T>| pw_nums(w), "Piecewise", &pn);
            }};
        }
        big!(Poly0);
        if n < 70_000 {
            big!(Poly3);
            big!(IntOfLogPoly4);
            big!(Log<Poly1>);
        }
    }
}

pub fn run(a: &Args, m: &mut Mon) {
    m.floors(&floors());
    canaries(m);
    if a.shard == 0 {
        let mut r = Rng::lane(a.seed, "C18-large", 0, if cfg!(feature = "borsh") { 1 } else { 0 });
        large(m, &mut r);
    }
    m.extra.insert("borsh_feature_enabled".into(), json!(cfg!(feature = "borsh")));
    let mut r = Rng::lane(a.seed, "C18", a.shard, if cfg!(feature = "borsh") { 1 } else { 0 });
    let n = a.n(5_000, 250_000);
    for k in 0..n {
        macro_rules! fam {
            ($t:ident) => {
                family!(m, &mut r, $t);
                family!(m, &mut r, Log<$t>);
                family!(m, &mut r, IntOfLog<$t>);
            };
        }
        ppv::for_polys!(fam);
        family!(m, &mut r, IntOfLogPoly4);
        knot(m, &mut r);
        if k % 64 == 5 {
            failed_serialization(m);
        }
    }
}
