//! Seeded PRNG and adversarial generators (own code, no external crates).

#[derive(Clone)]
pub struct Rng {
    s: [u64; 4],
}

pub fn splitmix(x: &mut u64) -> u64 {
    *x = x.wrapping_add(0x9E37_79B9_7F4A_7C15);
    let mut z = *x;
    z = (z ^ (z >> 30)).wrapping_mul(0xBF58_476D_1CE4_E5B9);
    z = (z ^ (z >> 27)).wrapping_mul(0x94D0_49BB_1331_11EB);
    z ^ (z >> 31)
}

pub fn mix2(a: u64, b: u64) -> u64 {
    let mut x = a ^ b.rotate_left(32) ^ 0xD6E8_FEB8_6659_FD93;
    let y = splitmix(&mut x);
    let mut z = y ^ b;
    splitmix(&mut z)
}

pub fn hash_bits<I: IntoIterator<Item = u64>>(seed: u64, it: I) -> u64 {
    let mut h = seed ^ 0xA076_1D64_78BD_642F;
    for v in it {
        h = mix2(h, v);
    }
    h
}

impl Rng {
    pub fn new(seed: u64) -> Rng {
        let mut x = seed;
        let s = [
            splitmix(&mut x),
            splitmix(&mut x),
            splitmix(&mut x),
            splitmix(&mut x),
        ];
        Rng { s }
    }
    /// independent lane derived from (seed, property tag, shard, lane)
    pub fn lane(seed: u64, tag: &str, shard: u64, lane: u64) -> Rng {
        let mut h = seed;
        for b in tag.bytes() {
            h = mix2(h, b as u64);
        }
        Rng::new(mix2(mix2(h, shard), lane))
    }
    pub fn next_u64(&mut self) -> u64 {
        let r = self.s[1].wrapping_mul(5).rotate_left(7).wrapping_mul(9);
        let t = self.s[1] << 17;
        self.s[2] ^= self.s[0];
        self.s[3] ^= self.s[1];
        self.s[1] ^= self.s[2];
        self.s[0] ^= self.s[3];
        self.s[2] ^= t;
        self.s[3] = self.s[3].rotate_left(45);
        r
    }
    pub fn below(&mut self, n: u64) -> u64 {
        if n == 0 {
            return 0;
        }
        // multiply-shift; bias irrelevant here
        ((self.next_u64() as u128 * n as u128) >> 64) as u64
    }
    pub fn usize(&mut self, lo: usize, hi: usize) -> usize {
        lo + self.below((hi - lo + 1) as u64) as usize
    }
    pub fn int(&mut self, lo: i64, hi: i64) -> i64 {
        lo + self.below((hi - lo + 1) as u64) as i64
    }
    pub fn unit(&mut self) -> f64 {
        (self.next_u64() >> 11) as f64 * (1.0 / (1u64 << 53) as f64)
    }
    pub fn chance(&mut self, p: f64) -> bool {
        self.unit() < p
    }
    pub fn pick<T: Copy>(&mut self, xs: &[T]) -> T {
        xs[self.below(xs.len() as u64) as usize]
    }
    pub fn sign(&mut self) -> f64 {
        if self.next_u64() & 1 == 0 {
            1.0
        } else {
            -1.0
        }
    }
    pub fn uniform(&mut self, lo: f64, hi: f64) -> f64 {
        lo + (hi - lo) * self.unit()
    }
    /// sign * 10^U(-k,k)
    pub fn logu(&mut self, k: f64) -> f64 {
        self.sign() * 10f64.powf(self.uniform(-k, k))
    }
    pub fn logu_pos(&mut self, k: f64) -> f64 {
        10f64.powf(self.uniform(-k, k))
    }
    pub fn small_int(&mut self, m: i64) -> f64 {
        self.int(-m, m) as f64
    }
    /// k / 2^j
    pub fn dyadic(&mut self) -> f64 {
        let k = self.int(-1024, 1024) as f64;
        let j = self.int(0, 10) as i32;
        k * 2f64.powi(-j)
    }
    /// any finite, non-NaN double drawn from raw bits (all exponents)
    pub fn raw_finite(&mut self) -> f64 {
        loop {
            let f = f64::from_bits(self.next_u64());
            if f.is_finite() {
                return f;
            }
        }
    }
    /// mixture of "ordinary" doubles
    pub fn mixed(&mut self, decades: f64) -> f64 {
        match self.below(6) {
            0 => self.small_int(16),
            1 => self.dyadic(),
            2 => self.uniform(-1.0, 1.0),
            3 => self.uniform(-100.0, 100.0),
            _ => self.logu(decades),
        }
    }
}

/// move x by n ulps (n may be negative); stays finite-or-inf, never NaN for non-NaN input
pub fn ulps(x: f64, n: i64) -> f64 {
    let mut v = x;
    if n >= 0 {
        for _ in 0..n {
            v = v.next_up();
        }
    } else {
        for _ in 0..(-n) {
            v = v.next_down();
        }
    }
    v
}

/// jump by n ulps without a loop (for large n); x must be finite and nonzero and the
/// result must stay in the same sign range.
pub fn ulps_fast(x: f64, n: i64) -> f64 {
    let b = x.to_bits();
    if x > 0.0 {
        f64::from_bits((b as i64 + n) as u64)
    } else {
        f64::from_bits((b as i64 - n) as u64)
    }
}

#[derive(Clone, Copy, Debug, PartialEq, Eq)]
pub enum EndsClass {
    Strict,
    Dups,
    UlpWide,
    Negative,
    MixedZero,
    WideSpan,
    Positive,
    Bench,
    IntGrid,
}

pub const ENDS_CLASSES: [EndsClass; 9] = [
    EndsClass::Strict,
    EndsClass::Dups,
    EndsClass::UlpWide,
    EndsClass::Negative,
    EndsClass::MixedZero,
    EndsClass::WideSpan,
    EndsClass::Positive,
    EndsClass::Bench,
    EndsClass::IntGrid,
];

/// Well-formed breakpoint list: non-empty, non-NaN, non-decreasing, length n.
pub fn gen_ends(r: &mut Rng, n: usize, class: EndsClass) -> Vec<f64> {
    let mut v: Vec<f64> = Vec::with_capacity(n);
    match class {
        EndsClass::Strict => {
            let mut x = r.uniform(-50.0, 50.0);
            for _ in 0..n {
                v.push(x);
                x += r.uniform(0.01, 3.0);
            }
        }
        EndsClass::Dups => {
            let mut x = r.small_int(8);
            for _ in 0..n {
                v.push(x);
                if r.chance(0.5) {
                    x += r.int(1, 3) as f64 * 0.5;
                }
            }
        }
        EndsClass::UlpWide => {
            let mut x = r.mixed(3.0);
            for _ in 0..n {
                v.push(x);
                match r.below(4) {
                    0 => {}
                    1 => x = x.next_up(),
                    2 => x = ulps(x, r.int(2, 5)),
                    _ => x += r.uniform(0.0, 1.0),
                }
            }
        }
        EndsClass::Negative => {
            let mut x = -r.logu_pos(3.0) - n as f64;
            for _ in 0..n {
                v.push(x);
                x += r.uniform(0.0, 1.0) * (x.abs() / (n as f64 + 1.0));
                if x >= 0.0 {
                    x = -f64::MIN_POSITIVE;
                }
            }
            v.sort_by(|a, b| a.partial_cmp(b).unwrap());
        }
        EndsClass::MixedZero => {
            for _ in 0..n {
                v.push(match r.below(6) {
                    0 => 0.0,
                    1 => -0.0,
                    2 => r.small_int(3),
                    3 => r.uniform(-1.0, 1.0),
                    4 => f64::MIN_POSITIVE * r.sign(),
                    _ => r.dyadic(),
                });
            }
            // numeric sort; keep -0.0/0.0 in generated order (stable sort, they compare equal)
            v.sort_by(|a, b| a.partial_cmp(b).unwrap());
        }
        EndsClass::WideSpan => {
            for _ in 0..n {
                v.push(r.logu(15.0));
            }
            if r.chance(0.2) {
                let k = v.len() - 1;
                v[k] = f64::MAX;
            }
            if r.chance(0.2) {
                v[0] = f64::MIN;
            }
            if r.chance(0.1) {
                let k = v.len() - 1;
                v[k] = f64::INFINITY;
            }
            if r.chance(0.1) {
                v[0] = f64::NEG_INFINITY;
            }
            v.sort_by(|a, b| a.partial_cmp(b).unwrap());
        }
        EndsClass::Positive => {
            let mut x = r.logu_pos(2.0);
            for _ in 0..n {
                v.push(x);
                x *= 1.0 + r.uniform(0.0, 0.5);
            }
        }
        EndsClass::Bench => {
            // shape of the repository's benchmark data: ends in [0.79, 1.21]
            let mut x = 0.79 + r.uniform(0.0, 0.01);
            let step = 0.42 / n as f64;
            for _ in 0..n {
                v.push(x);
                x += step * r.uniform(0.5, 1.5);
            }
        }
        EndsClass::IntGrid => {
            let x0 = r.int(-3, 3) as f64;
            for i in 0..n {
                v.push(x0 + i as f64);
            }
        }
    }
    debug_assert!(v.len() == n || class == EndsClass::WideSpan);
    v
}

pub fn gen_ends_any(r: &mut Rng, n: usize) -> (Vec<f64>, EndsClass) {
    let c = r.pick(&ENDS_CLASSES);
    (gen_ends(r, n, c), c)
}

/// Breakpoints at infinity: the last 1..3 ends become +inf (so +inf also occurs on pieces that are not the last one)
/// and / or the first 1..2 ends become -inf. The list stays non-decreasing and non-NaN. Returns true if it changed.
pub fn infinite_tails(r: &mut Rng, ends: &mut [f64]) -> bool {
    let n = ends.len();
    let mut changed = false;
    if r.below(2) == 0 {
        let j = r.usize(1, 3).min(n);
        for e in ends[n - j..].iter_mut() {
            *e = f64::INFINITY;
        }
        changed = true;
    }
    if r.below(3) == 0 {
        let i = r.usize(1, 2).min(n);
        for e in ends[..i].iter_mut() {
            if *e != f64::INFINITY {
                *e = f64::NEG_INFINITY;
            }
        }
        changed = true;
    }
    changed
}

/// Critical query points for a list of ends (all non-NaN).
pub fn critical_queries(ends: &[f64]) -> Vec<f64> {
    let mut q: Vec<f64> = Vec::with_capacity(ends.len() * 5 + 8);
    let mut prev: Option<f64> = None;
    for &e in ends {
        q.push(e);
        q.push(e.next_up());
        q.push(e.next_down());
        if let Some(p) = prev {
            let m = p * 0.5 + e * 0.5;
            if m.is_finite() {
                q.push(m);
            }
            let m2 = p + (e - p) * 0.25;
            if m2.is_finite() {
                q.push(m2);
            }
        }
        prev = Some(e);
    }
    let first = ends[0];
    let last = *ends.last().unwrap();
    for d in [0.25, 1.0, 1e3] {
        if (first - d).is_finite() {
            q.push(first - d);
        }
        if (last + d).is_finite() {
            q.push(last + d);
        }
    }
    q.push(f64::MAX);
    q.push(f64::MIN);
    q.push(f64::INFINITY);
    q.push(f64::NEG_INFINITY);
    q.push(0.0);
    q.push(-0.0);
    q.retain(|x| !x.is_nan());
    // dedupe by bits, keep order
    let mut seen = std::collections::HashSet::new();
    q.retain(|x| seen.insert(x.to_bits()));
    q
}

/// The reference model of segment selection: first index whose end is strictly greater than x,
/// otherwise the last index. Written independently of the library.
pub fn sel(ends: &[f64], x: f64) -> usize {
    let mut i = 0usize;
    while i < ends.len() {
        if ends[i] > x {
            return i;
        }
        i += 1;
    }
    ends.len() - 1
}

#[derive(Clone, Copy, Debug, PartialEq, Eq)]
pub enum Policy {
    Walk,
    Jumps,
    Up,
    Down,
    PingPong,
    ExactHits,
    Repeats,
    LastFirst,
    Uniform,
}
pub const POLICIES: [Policy; 9] = [
    Policy::Walk,
    Policy::Jumps,
    Policy::Up,
    Policy::Down,
    Policy::PingPong,
    Policy::ExactHits,
    Policy::Repeats,
    Policy::LastFirst,
    Policy::Uniform,
];

/// A history of non-NaN queries for a function with the given ends.
pub fn gen_history(r: &mut Rng, ends: &[f64], len: usize, policy: Policy) -> Vec<f64> {
    let crit = critical_queries(ends);
    let finite: Vec<f64> = crit.iter().cloned().filter(|x| x.is_finite()).collect();
    let lo = ends[0].max(-1e300);
    let hi = ends.last().unwrap().min(1e300);
    let span = (hi - lo).abs().max(1.0);
    let mut h = Vec::with_capacity(len);
    let mut idx = r.below(crit.len() as u64) as i64;
    let mut sorted = finite.clone();
    sorted.sort_by(|a, b| a.partial_cmp(b).unwrap());
    for k in 0..len {
        let x = match policy {
            Policy::Walk => {
                idx = (idx + r.int(-2, 2)).clamp(0, sorted.len() as i64 - 1);
                sorted[idx as usize]
            }
            Policy::Jumps => r.pick(&crit),
            Policy::Up => {
                let i = (k * sorted.len() / len.max(1)).min(sorted.len() - 1);
                sorted[i]
            }
            Policy::Down => {
                let i = (k * sorted.len() / len.max(1)).min(sorted.len() - 1);
                sorted[sorted.len() - 1 - i]
            }
            Policy::PingPong => {
                let e = ends[(idx as usize) % ends.len()];
                match k % 4 {
                    0 => e.next_down(),
                    1 => e,
                    2 => e.next_up(),
                    _ => e,
                }
            }
            Policy::ExactHits => r.pick(ends),
            Policy::Repeats => {
                if k > 0 && r.chance(0.6) {
                    h[k - 1]
                } else {
                    r.pick(&crit)
                }
            }
            Policy::LastFirst => {
                if k % 2 == 0 {
                    hi + r.uniform(0.0, 1.0)
                } else {
                    lo - r.uniform(0.0, 1.0)
                }
            }
            Policy::Uniform => lo - 0.1 * span + r.unit() * 1.2 * span,
        };
        h.push(if x.is_nan() { 0.0 } else { x });
    }
    h
}
