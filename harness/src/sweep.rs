//! Panic sweep for C16: run the workloads of the other drivers at reduced scale and transfer
//! only the panics they observed (value-level findings belong to the other properties).

use crate::gen::*;
use crate::mon::*;

pub fn transfer(m: &mut Mon, sub: Mon, name: &str) {
    m.add("sweep_ops", sub.evaluations);
    m.add(&format!("sweep_ops:{}", name), sub.evaluations);
    for v in sub.violations {
        if v.get("panic").is_some() {
            let sig = format!("panic in {} workload: {}", name, v.get("sig").and_then(|s| s.as_str()).unwrap_or("?"));
            let msg = v.get("panic").and_then(|s| s.as_str()).unwrap_or("?").to_string();
            let vv = v.clone();
            m.panic(&sig, &msg, || vv);
        }
    }
    m.evaluations += sub.evaluations;
}

pub fn run(a: &Args, m: &mut Mon, _r: &mut Rng) {
    let sub_args = Args {
        prop: String::new(),
        tier: a.tier.clone(),
        seed: a.seed ^ 0x16,
        shard: a.shard,
        nshards: a.nshards,
        out: String::new(),
        hashes: String::new(),
        scale: a.scale * 0.1,
        replay: String::new(),
    };
    macro_rules! sub {
        ($name:expr, $f:path) => {{
            let mut s = Mon::new($name);
            $f(&sub_args, &mut s);
            transfer(m, s, $name);
        }};
    }
    sub!("C02", crate::c02::run);
    sub!("C12", crate::c12::run);
}
