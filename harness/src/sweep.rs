//! Panic sweep for C16: run the workloads of the other drivers at reduced scale and transfer
//! only the panics they observed (value-level findings belong to the other properties).

use crate::gen::*;
use crate::mon::*;

pub fn transfer(m: &mut Mon, sub: Mon, name: &str) {
    m.add("sweep_ops", sub.evaluations);
    m.add(&format!("sweep_ops:{}", name), sub.evaluations);
    for v in sub.violations {
        if v.get("panic").is_some() {
            let sig = format!("panic in {} workload: {}", name, v.get("sig").and_then(|s| s.as_str()).unwrap_or("?"));
            let msg = v.get("panic").and_then(|s| s.as_str()).unwrap_or("?").to_string();
            let vv = v.clone();
            m.panic(&sig, &msg, || vv);
        }
    }
    m.evaluations += sub.evaluations;
}

pub fn run(a: &Args, m: &mut Mon, _r: &mut Rng) {
    let sub_args = Args {
        prop: String::new(),
        tier: a.tier.clone(),
        seed: a.seed ^ 0x16,
        shard: a.shard,
        nshards: a.nshards,
        out: String::new(),
        hashes: String::new(),
        scale: a.scale * 0.1,
        replay: String::new(),
    };
    macro_rules! sub {
        ($name:expr, $f:path) => {{
            let mut s = Mon::new($name);
            $f(&sub_args, &mut s);
            transfer(m, s, $name);
        }};
    }
    sub!("C02", crate::c02::run);
    sub!("C12", crate::c12::run);
    sub!("C13", crate::c13::run);
    sub!("C14", crate::c14::run);
    sub!("C15", crate::c15::run);
    sub!("C17", crate::c17::run);
    sub!("C18", crate::c18::run);
    sub!("C19", crate::c19::run);
    // the offline drivers: events are discarded (null sink), only panics are kept
    macro_rules! subd {
        ($name:expr, $f:path) => {{
            let mut s = Mon::new($name);
            let mut sink = crate::events::Sink::null();
            let mut sa = Args { prop: $name.to_string(), ..clone_args(&sub_args) };
            sa.scale = sub_args.scale;
            $f(&sa, &mut s, &mut sink);
            s.evaluations = s.evaluations.max(sink.n);
            transfer(m, s, $name);
        }};
    }
    subd!("C01", crate::c01::drive);
    subd!("C04", crate::c04::drive_spline);
    subd!("C06", crate::c04::drive_linear);
    subd!("C07", crate::c07::drive07);
    subd!("C08", crate::c07::drive08);
    subd!("C09", crate::c09::drive09);
    subd!("C10", crate::c09::drive10);
    subd!("C11", crate::c11::drive);
}

fn clone_args(a: &Args) -> Args {
    Args {
        prop: a.prop.clone(),
        tier: a.tier.clone(),
        seed: a.seed,
        shard: a.shard,
        nshards: a.nshards,
        out: String::new(),
        hashes: String::new(),
        scale: a.scale,
        replay: String::new(),
    }
}
