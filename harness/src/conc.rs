//! Truly concurrent lane: the same kind of library calls the sequential lanes make, issued from several OS threads
//! at the same moment. The library has no shared mutable state on the pinned tree, so nothing can differ there; a
//! process-wide cache, memo or table that is not published atomically shows up as a value that the ordinary oracle of
//! the property rejects (the results are judged like every other observation — nothing is compared between threads).
//!
//! Every job is called twice in a row by its thread in every round ("re-evaluate my own last argument", the access
//! pattern under which a torn key/value pair is read back), the rounds are repeated until the threads have overlapped
//! for `min_ms` of wall-clock time (only the length of the workload depends on the clock, never a verdict), and every
//! DISTINCT result a job ever produced is reported.

use crate::mon::guard;
use std::sync::atomic::{AtomicBool, AtomicUsize, Ordering};
use std::time::{Duration, Instant};

pub type Job = Box<dyn Fn() -> Vec<f64> + Send + Sync>;

pub struct ConcStats {
    pub threads: usize,
    pub rounds_min: u64,
    pub calls: u64,
    pub jobs_with_more_than_one_result: u64,
}

/// Rendezvous of the worker threads at the start of every round (so that, on a loaded machine too, the rounds are
/// executed while all workers are on a CPU); spins with yield, gives up when a worker has reported a panic.
struct Rendezvous {
    n: usize,
    count: AtomicUsize,
    generation: AtomicUsize,
    abort: AtomicBool,
    stop: AtomicBool,
}
impl Rendezvous {
    fn wait(&self) -> bool {
        let g = self.generation.load(Ordering::Acquire);
        if self.count.fetch_add(1, Ordering::AcqRel) + 1 == self.n {
            self.count.store(0, Ordering::Release);
            self.generation.fetch_add(1, Ordering::Release);
        } else {
            while self.generation.load(Ordering::Acquire) == g {
                if self.abort.load(Ordering::Relaxed) {
                    return false;
                }
                std::thread::yield_now();
            }
        }
        !self.abort.load(Ordering::Relaxed)
    }
}

/// Per job: the distinct results (bit patterns) seen over all rounds and threads; Err(panic message) if a thread's
/// library call panicked.
pub fn run(jobs: &[Job], threads: usize, min_ms: u64, min_rounds: u64) -> Result<(Vec<Vec<Vec<u64>>>, ConcStats), String> {
    let n = jobs.len();
    let rv = Rendezvous { n: threads, count: AtomicUsize::new(0), generation: AtomicUsize::new(0), abort: AtomicBool::new(false), stop: AtomicBool::new(false) };
    let mut per_thread: Vec<Result<(Vec<(usize, Vec<Vec<u64>>)>, u64, u64), String>> = Vec::new();
    std::thread::scope(|s| {
        let mut hs = Vec::new();
        for t in 0..threads {
            let rv = &rv;
            hs.push(s.spawn(move || {
                let mine: Vec<usize> = (0..n).filter(|i| i % threads == t).collect();
                let mut seen: Vec<Vec<Vec<u64>>> = mine.iter().map(|_| Vec::new()).collect();
                let t0 = Instant::now();
                let mut rounds = 0u64;
                let mut calls = 0u64;
                loop {
                    // all workers start the round together
                    if !rv.wait() {
                        return Err("<another worker's library call panicked>".to_string());
                    }
                    if rv.stop.load(Ordering::Acquire) {
                        break;
                    }
                    let r = guard(|| {
                        for (slot, &i) in mine.iter().enumerate() {
                            for _ in 0..2 {
                                let bits: Vec<u64> = jobs[i]().iter().map(|v| v.to_bits()).collect();
                                calls += 1;
                                if !seen[slot].contains(&bits) && seen[slot].len() < 8 {
                                    seen[slot].push(bits);
                                }
                            }
                        }
                    });
                    if let Err(p) = r {
                        rv.abort.store(true, Ordering::Release);
                        return Err(p);
                    }
                    rounds += 1;
                    // second rendezvous: the leader decides, between two rendezvous, whether another round follows
                    if !rv.wait() {
                        return Err("<another worker's library call panicked>".to_string());
                    }
                    if t == 0 && ((rounds >= min_rounds && t0.elapsed() >= Duration::from_millis(min_ms)) || rounds >= 200_000) {
                        rv.stop.store(true, Ordering::Release);
                    }
                }
                Ok((mine.into_iter().zip(seen).collect::<Vec<_>>(), rounds, calls))
            }));
        }
        for h in hs {
            per_thread.push(h.join().unwrap_or_else(|_| Err("<thread panicked outside a guarded call>".into())));
        }
    });
    let mut out: Vec<Vec<Vec<u64>>> = (0..n).map(|_| Vec::new()).collect();
    let mut st = ConcStats { threads, rounds_min: u64::MAX, calls: 0, jobs_with_more_than_one_result: 0 };
    let mut first_err: Option<String> = None;
    let mut results = Vec::new();
    for r in per_thread {
        match r {
            Ok(x) => results.push(x),
            Err(e) => {
                if first_err.is_none() || first_err.as_deref().map_or(false, |m| m.starts_with('<')) {
                    first_err = Some(e);
                }
            }
        }
    }
    if let Some(e) = first_err {
        return Err(e);
    }
    for (v, rounds, calls) in results {
        st.rounds_min = st.rounds_min.min(rounds);
        st.calls += calls;
        for (i, seen) in v {
            out[i] = seen;
        }
    }
    st.jobs_with_more_than_one_result = out.iter().filter(|s| s.len() > 1).count() as u64;
    Ok((out, st))
}
