//! Event log for the offline (exact / multi-precision) oracles: one JSON object per line on stdout,
//! every f64 as its 16-hex-digit bit pattern. A null sink is used by the C16 panic sweep.

use crate::mon::*;
use serde_json::{json, Value};
use std::io::{BufWriter, Stdout, Write};

pub struct Sink {
    w: Option<BufWriter<Stdout>>,
    pub n: u64,
}
impl Sink {
    pub fn stdout() -> Sink {
        Sink { w: Some(BufWriter::with_capacity(1 << 16, std::io::stdout())), n: 0 }
    }
    pub fn null() -> Sink {
        Sink { w: None, n: 0 }
    }
    pub fn emit(&mut self, v: Value) {
        self.n += 1;
        if let Some(w) = self.w.as_mut() {
            serde_json::to_writer(&mut *w, &v).unwrap();
            w.write_all(b"\n").unwrap();
        }
    }
    /// final line: what the driver itself observed (panics, class counters, floors)
    pub fn finish(&mut self, m: Mon, wall_s: f64) {
        if let Some(w) = self.w.as_mut() {
            let meta = json!({"t": "meta", "counters": m.counters, "violations": m.violations, "violation_sigs_n": m.n_violations,
                "panics": m.panics, "floors": m.floors, "samples": m.samples, "canaries_fed": m.canaries_fed,
                "canaries_flagged": m.canaries_flagged, "extra": m.extra, "driver_wall_s": wall_s, "events": self.n});
            serde_json::to_writer(&mut *w, &meta).unwrap();
            w.write_all(b"\n").unwrap();
            w.flush().unwrap();
        }
    }
}

pub fn h(x: f64) -> Value {
    Value::String(hx(x))
}
pub fn hs(xs: &[f64]) -> Value {
    Value::Array(xs.iter().map(|x| h(*x)).collect())
}
