//! Coefficient-vector and argument generators shared by the polynomial drivers.

use crate::gen::*;

pub fn coeff_vec(r: &mut Rng, len: usize, x: f64) -> (Vec<f64>, &'static str) {
    match r.below(14) {
        13 => {
            // a few ulps (or a relative 1e-15..1e-12) beside simple fractions p/q: products with small integers land
            // next to, not on, integers and other round values
            ((0..len).map(|_| {
                let f = r.int(-40, 40) as f64 / r.int(1, 8) as f64;
                if f == 0.0 { 0.0 } else if r.chance(0.5) { ulps(f, r.int(-4, 4)) } else { f * (1.0 + r.sign() * 10f64.powf(r.uniform(-15.5, -12.0))) }
            }).collect(), "beside_simple_fractions")
        }
        10 => {
            // the whole vector at a very small or very large common scale
            let sc = 10f64.powf(r.uniform(-35.0, 35.0));
            ((0..len).map(|_| r.mixed(2.0) * sc).collect(), "common_scale")
        }
        11 => {
            let sc = 10f64.powf(r.uniform(-30.0, -16.0));
            ((0..len).map(|_| if r.chance(0.2) { 0.0 } else { r.uniform(-9.0, 9.0) * sc }).collect(), "tiny_scale")
        }
        12 => {
            // one or two coefficients within a factor 50 of f64::MAX, the others ordinary (so that the products the
            // operation under test forms with the *other* lanes stay finite)
            let k1 = r.usize(0, len - 1);
            let k2 = r.usize(0, len - 1);
            ((0..len).map(|i| if i == k1 || (i == k2 && r.chance(0.3)) { f64::MAX * r.uniform(0.02, 1.0) * r.sign() } else { r.mixed(2.0) }).collect(), "near_overflow")
        }
        0 => {
            let k = r.usize(0, len - 1);
            let c = if r.chance(0.5) { r.small_int(9).max(1.0) } else { r.mixed(6.0) };
            ((0..len).map(|i| if i == k { c } else { 0.0 }).collect(), "one_hot")
        }
        1 => ((0..len).map(|_| r.small_int(9)).collect(), "small_int"),
        2 => ((0..len).map(|_| r.dyadic()).collect(), "dyadic"),
        3 => ((0..len).map(|i| (i + 1) as f64).collect(), "suite_shape"),
        4 => {
            let s = r.pick(&[1.0, -1.0]);
            ((0..len).map(|_| s * r.uniform(0.1, 10.0)).collect(), "same_sign")
        }
        5 => ((0..len).map(|i| if i % 2 == 0 { 1.0 } else { -1.0 } * r.uniform(0.1, 10.0)).collect(), "alternating")
        ,
        6 => {
            // cancelling: (t - x0) * q(t) with x0 next to the query point
            if len < 2 {
                return (vec![r.mixed(3.0)], "cancelling");
            }
            let q: Vec<f64> = (0..len - 1).map(|_| r.uniform(-2.0, 2.0)).collect();
            let x0 = if x.is_finite() && x.abs() < 1e3 { x * (1.0 + r.uniform(-1e-9, 1e-9)) } else { 1.0 };
            let mut c = vec![0.0; len];
            for (i, qi) in q.iter().enumerate() {
                c[i + 1] += qi;
                c[i] -= qi * x0;
            }
            (c, "cancelling")
        }
        7 => ((0..len).map(|_| r.logu(30.0)).collect(), "wide_magnitudes"),
        _ => ((0..len).map(|_| r.mixed(3.0)).collect(), "mixed"),
    }
}

pub fn arg_poly(r: &mut Rng) -> (f64, &'static str) {
    match r.below(16) {
        15 => (r.sign() * 10f64.powf(r.uniform(30.0, 150.0)), "huge"),
        14 => (r.sign() * 10f64.powf(r.uniform(-300.0, -80.0)), "tiny_powers_underflow"),
        0 => (0.0, "zero"),
        1 => (1.0, "one"),
        2 => (-1.0, "minus_one"),
        3 => (r.pick(&[3.0, 17.0]), "suite_point"),
        4 => (r.small_int(20), "small_int"),
        5 => (r.dyadic(), "dyadic"),
        6 => (-r.uniform(0.0, 10.0), "negative"),
        7 => (r.uniform(-1.0, 1.0), "fractional"),
        8 => (r.logu(1.0) * 1e4, "large"),
        9 => (r.logu(1.0) * 1e-4, "small"),
        10 => (r.logu(12.0), "log_uniform"),
        11 => (2f64.powi(r.int(-20, 20) as i32) * r.sign(), "power_of_two"),
        12 => (-0.0, "neg_zero"),
        _ => (r.mixed(3.0), "mixed"),
    }
}

pub fn arg_log(r: &mut Rng) -> (f64, &'static str) {
    match r.below(12) {
        10 => (f64::from_bits(r.below(1 << 52).max(1)), "v_subnormal"),
        11 => (f64::MIN_POSITIVE * r.pick(&[1.0, 2.0, 1.5, 1024.0]), "v_smallest_normals"),
        0 => (1.0, "v_one"),
        1 => (ulps(1.0, r.int(-50, 50)), "v_ulps_of_one"),
        2 => (7.0, "suite_point"),
        3 => (r.uniform(0.0, 1.0).max(1e-300), "v_in_0_1"),
        4 => (r.logu_pos(1.0) * 1e6, "v_huge"),
        5 => (r.logu_pos(1.0) * 1e-6, "v_tiny"),
        6 => (r.logu_pos(300.0), "v_any_magnitude"),
        7 => (r.uniform(0.8, 1.2), "v_benchmark_range"),
        8 => (std::f64::consts::E * (1.0 + r.uniform(-1e-12, 1e-12)), "v_near_e"),
        _ => (r.uniform(0.0, 100.0).max(1e-300), "v_moderate"),
    }
}

