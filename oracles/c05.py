#!/usr/bin/env python3
"""C05 oracle: no overshoot / monotone on every interval (analytic, from the critical points of each returned
cubic at 600 bits), flat at data extrema, straight line for collinear knots, equal to the exact Kruger spline."""
from fractions import Fraction

import mpmath
from mpmath import mpf

from common import U, f, fr, main, ratio
from c04 import K, NotFinite, decode, domain, hermite, kruger, pder, peval
from logref import fmp

mpmath.mp.prec = 600


def critical_points(C, x0, x1):
    """roots of b + 2c x + 3d x^2 strictly inside (x0, x1), at 600 bits"""
    b, c2, d3 = fmp(C[1]), 2 * fmp(C[2]), 3 * fmp(C[3])
    roots = []
    if d3 == 0:
        if c2 != 0:
            roots = [-b / c2]
    else:
        disc = c2 * c2 - 4 * d3 * b
        if disc >= 0:
            sq = mpmath.sqrt(disc)
            # numerically stable pair
            q = -(c2 + (sq if c2 >= 0 else -sq)) / 2
            r1 = q / d3
            roots = [r1]
            if q != 0:
                roots.append(b / q)
    a, z = fmp(x0), fmp(x1)
    return sorted(r for r in roots if a < r < z)


def mp_peval(C, x):
    return ((fmp(C[3]) * x + fmp(C[2])) * x + fmp(C[1])) * x + fmp(C[0])


def check(mon, ev):
    try:
        xs, ys, ends, co = decode(ev)
    except NotFinite:
        mon.count("out_of_domain")
        return
    mon.case(ev["h"])
    wit = lambda extra=None: dict({"x": ev["x"], "y": ev["y"], "x_v": xs, "y_v": ys, "coefficients": ev["co"][:8], "fam": [ev["xf"], ev["yf"]]}, **(extra or {}))
    X, Y = [fr(v) for v in xs], [fr(v) for v in ys]
    s, d = kruger(X, Y)
    if not domain(X, Y, s):
        mon.count("out_of_domain")
        return
    segs = hermite(mon, ev, wit, X, Y, xs, ends, co, s, d, count=False)   # "coincides with the exact Kruger spline"
    if segs is None:
        return
    n = len(X)
    collinear = all(si == s[0] for si in s)
    if collinear:
        mon.count("collinear_inputs")
    for i in range(n - 1):
        if segs[i] is None:
            continue
        T, TD, C = segs[i]
        x0, x1, y0, y1 = X[i], X[i + 1], Y[i], Y[i + 1]
        tol = fmp(K * U * T)
        pts = [fmp(x0)] + critical_points(C, x0, x1) + [fmp(x1)]
        vals = [mp_peval(C, p) for p in pts]
        if len(pts) > 2:
            mon.count("segments_with_interior_critical_point")
        hi, lo = fmp(max(y0, y1)), fmp(min(y0, y1))
        over = max(max(vals) - hi, lo - min(vals), mpf(0))
        if tol > 0:
            mon.ratio(float(over / tol), lambda: wit({"segment": i, "check": "overshoot"}))
        if not (over <= tol):
            mon.violation("constrained_spline overshoots the knot ordinates inside an interval",
                          lambda: wit({"segment": i, "overshoot": float(over), "dev_over_tol": float(over / tol) if tol > 0 else None, "critical_points": [float(p) for p in pts]}))
            return
        if y1 != y0:
            dirn = 1 if y1 > y0 else -1
            back = mpf(0)
            for a in range(len(vals)):
                for b in range(a + 1, len(vals)):
                    back = max(back, dirn * (vals[a] - vals[b]))
        else:
            back = max(vals) - min(vals)
            mon.count("plateau_segments")
        if tol > 0:
            mon.ratio(float(back / tol), lambda: wit({"segment": i, "check": "monotone"}))
        if not (back <= tol):
            mon.violation("constrained_spline is not monotone on an interval", lambda: wit({"segment": i, "backtracking": float(back), "dev_over_tol": float(back / tol) if tol > 0 else None}))
            return
        # flat at data extrema / next to flat data
        for knot, side in ((i, "left"), (i + 1, "right")):
            if 0 < knot < n - 1 and s[knot - 1] * s[knot] <= 0:
                dv = abs(pder(C, X[knot]))
                tl = K * U * TD
                mon.count("flat_knot_slopes_checked")
                mon.ratio(ratio(dv, tl), lambda: wit({"segment": i, "check": "flat at extremum"}))
                if dv > tl:
                    mon.violation("constrained_spline: slope at a data extremum / plateau knot is not zero", lambda: wit({"segment": i, "knot": knot, "slope": float(pder(C, X[knot]))}))
                    return
        if collinear:
            for k in range(4):
                x = x0 + (x1 - x0) * Fraction(k, 3)
                line = Y[0] + s[0] * (x - X[0])
                dv = abs(peval(C, x) - line)
                if dv > K * U * T:
                    mon.violation("constrained_spline does not reproduce the straight line through collinear knots", lambda: wit({"segment": i, "x": float(x), "dev_over_tol": ratio(dv, K * U * T)}))
                    return
            mon.count("collinear_segments_checked")
        mon.count("segments_checked")
    mon.sample("spline:" + ev["yf"], 1, lambda: {"x": xs[:6], "y": ys[:6], "first_cubic": co[0], "knots": len(xs)})


if __name__ == "__main__":
    main("C05", check)
