"""Shared machinery of the offline oracles: event loop, monitor bookkeeping, exact helpers."""
import json
import math
import struct
import sys
import time
from fractions import Fraction

U = Fraction(1, 2 ** 53)          # unit roundoff
LO = Fraction(1, 2 ** 960)        # domain guard: magnitudes outside [2^-960, 2^1000] are out of domain
HI = Fraction(2 ** 1000)


def f(hexs):
    """16 hex digits -> float"""
    return struct.unpack(">d", bytes.fromhex(hexs))[0]


def fr(x):
    """float -> exact Fraction (x finite)"""
    return Fraction(x)


def finite(x):
    return not (math.isnan(x) or math.isinf(x))


def hx(x):
    return struct.pack(">d", x).hex()


def in_domain(mag):
    """mag: exact Fraction magnitude of an intermediate term; zero is always fine"""
    return mag == 0 or (LO <= mag <= HI)


def ratio(dev, tol):
    if tol == 0:
        return 0.0 if dev == 0 else float("inf")
    q = dev / tol
    try:
        return float(q)
    except OverflowError:
        return float("inf")


class Mon:
    def __init__(self, prop):
        self.prop = prop
        self.evaluations = 0
        self.counters = {}
        self.samples = []
        self.sample_keys = {}
        self.violations = []
        self.viol_sigs = {}
        self.n_violations = 0
        self.hashes = set()
        self.max_ratio = 0.0
        self.max_ratio_at = None
        self.canaries_fed = 0
        self.canaries_flagged = 0
        self.in_canary = False
        self.canary_hit = False
        self.panics = 0
        self.notes = []
        self.floors = []
        self.extra = {}

    def count(self, k, n=1):
        self.counters[k] = self.counters.get(k, 0) + n

    def case(self, h):
        if not self.in_canary:
            self.hashes.add(h)

    def sample(self, key, per_key, fn):
        if self.in_canary:
            return
        c = self.sample_keys.get(key, 0)
        if c < per_key:
            self.sample_keys[key] = c + 1
            v = fn()
            v["class"] = key
            self.samples.append(v)

    def ratio(self, r, at):
        if self.in_canary:
            return
        if r == r and r != float("inf") and r > self.max_ratio:
            self.max_ratio = r
            self.max_ratio_at = at() if callable(at) else at

    def violation(self, sig, witness):
        if self.in_canary:
            self.canary_hit = True
            return
        self.n_violations += 1
        c = self.viol_sigs.get(sig, 0) + 1
        self.viol_sigs[sig] = c
        if c <= 3 and len(self.violations) < 60:
            w = witness() if callable(witness) else witness
            w["sig"] = sig
            w["property"] = self.prop
            self.violations.append(w)

    def begin_canary(self):
        self.in_canary = True
        self.canary_hit = False

    def end_canary(self):
        self.in_canary = False
        if self.canary_hit:
            self.canaries_flagged += 1

    def merge_meta(self, meta):
        for k, v in meta.get("counters", {}).items():
            self.count(k, v)
        for v in meta.get("violations", []):
            sig = v.get("sig", "?")
            self.n_violations += 1
            self.viol_sigs[sig] = self.viol_sigs.get(sig, 0) + 1
            if len(self.violations) < 60:
                v["property"] = self.prop
                self.violations.append(v)
        self.panics += meta.get("panics", 0)
        for fl in meta.get("floors", []):
            if fl not in self.floors:
                self.floors.append(fl)
        self.samples += meta.get("samples", [])[:6]
        self.canaries_fed += meta.get("canaries_fed", 0)
        self.canaries_flagged += meta.get("canaries_flagged", 0)
        for k, v in meta.get("extra", {}).items():
            self.extra[k] = v
        self.extra["driver_wall_s"] = meta.get("driver_wall_s", 0.0)
        self.extra["events_emitted"] = meta.get("events", 0)

    def finish(self, out, hashes_path, wall):
        d = {
            "property": self.prop, "evaluations": self.evaluations, "distinct": len(self.hashes),
            "counters": self.counters, "samples": self.samples, "violations": self.violations,
            "n_violations": self.n_violations, "violation_sigs": self.viol_sigs,
            "max_ratio": self.max_ratio, "max_ratio_at": self.max_ratio_at,
            "canaries_fed": self.canaries_fed, "canaries_flagged": self.canaries_flagged,
            "panics": self.panics, "notes": self.notes, "floors": self.floors, "extra": self.extra, "wall_s": wall,
        }
        with open(out, "w") as fo:
            json.dump(d, fo)
        if hashes_path:
            import array
            a = array.array("Q", [h & 0xFFFFFFFFFFFFFFFF for h in self.hashes])
            if sys.byteorder != "little":
                a.byteswap()
            with open(hashes_path, "wb") as fo:
                a.tofile(fo)


def parse_args():
    a = {"out": "-", "hashes": "", "tier": "quick", "prop": "?"}
    v = sys.argv[1:]
    i = 0
    while i < len(v):
        a[v[i].lstrip("-")] = v[i + 1]
        i += 2
    return a


def main(prop_default, check_event, setup=None):
    """Read events from stdin, feed every one to check_event(mon, ev); canary events must be flagged."""
    a = parse_args()
    t0 = time.time()
    mon = Mon(a.get("prop", prop_default))
    if setup:
        setup(mon, a)
    got_meta = False
    for line in sys.stdin:
        if not line.strip():
            continue
        ev = json.loads(line)
        if ev.get("t") == "meta":
            mon.merge_meta(ev)
            got_meta = True
            continue
        if ev.get("canary"):
            mon.begin_canary()
            try:
                check_event(mon, ev)
            finally:
                mon.end_canary()
        else:
            mon.evaluations += 1
            try:
                check_event(mon, ev)
            except Exception as e:          # a bug of the oracle, not an observation: the event is skipped and counted
                sys.stderr.write("oracle exception %r on event: %s\n" % (e, line[:2000]))
                mon.count("oracle_exception_event_skipped")
                if len(mon.notes) < 5:
                    mon.notes.append("oracle exception %r on an event (skipped)" % (e,))
    if not got_meta:
        # the driver died before finishing: never a verdict
        sys.stderr.write("oracle: event stream ended without meta line (driver crashed?)\n")
        sys.exit(4)
    mon.finish(a["out"], a["hashes"], time.time() - t0)
