#!/usr/bin/env python3
"""C10 oracle: IntOfLogPoly4::evaluate against k + v*sum c_j x^j + u*v*x^5*R(x), x = -ln v, at 400 bits."""
import mpmath
from mpmath import mpf

from common import f, finite, main
from logref import R

# the form's own intermediates are single products/sums of the listed terms: in domain while they stay normal doubles
LO, HI = mpf(2) ** -1000, mpf(2) ** 1020
REL = mpf(10) ** -12


def check(mon, ev):
    form = [f(c) for c in ev["f"]]
    v = f(ev["v"])
    r = f(ev["r"])
    mon.case(ev["h"])
    k, c1, c2, c3, c4, uu = form
    wit = lambda extra=None: dict({"form": ev["f"], "v": ev["v"], "r": ev["r"], "form_v": form, "v_v": v, "r_v": r, "branch": ev.get("branch")}, **(extra or {}))
    if not (v > 0 and finite(v)):
        mon.count("out_of_domain")
        return
    if v == 1.0:
        mon.count("v_equals_one_exact")
        if r != k:
            mon.violation("value at v=1 is not exactly k", wit)
        return
    V = mpf(v)
    x = -mpmath.log(V)
    Rx = R(x)
    tail = x ** 5 * Rx
    terms = [mpf(k), V * c1 * x, V * c2 * x ** 2, V * c3 * x ** 3, V * c4 * x ** 4, mpf(uu) * V * tail]
    inner = [mpf(c1) * x, mpf(c2) * x ** 2, mpf(c3) * x ** 3, mpf(c4) * x ** 4, mpf(uu) * tail, abs(x) ** 5, tail, Rx]
    S = sum(abs(t) for t in terms)
    if any((t != 0 and not (LO <= abs(t) <= HI)) for t in terms + inner):
        mon.count("out_of_domain")
        return
    if not finite(r):
        mon.violation("non-finite value on in-domain input", wit)
        return
    truth = sum(terms)
    tol = REL * S
    dev = abs(mpf(r) - truth)
    mon.count("checked")
    mon.count("checked_branch_" + str(ev.get("branch")))
    ax = abs(x)
    band = "x<1e-6" if ax < mpf(10) ** -6 else "x<0.1" if ax < 0.1 else "x<1.7" if ax < 1.7 else "x<1.73" if ax < 1.73 else "x<10" if ax < 10 else "x<50" if ax < 50 else "x>=50"
    mon.count("band:" + band)
    if tol > 0:
        rr = float(dev / tol)
        mon.ratio(rr, lambda: wit({"x": float(x)}))
        if not mon.in_canary:
            key = "max_ratio_band_" + band
            mon.extra[key] = max(mon.extra.get(key, 0.0), rr)
    if not (dev <= tol):
        mon.violation("error exceeds 1e-12 * sum of term magnitudes (" + ("series" if ev.get("branch") == "series" else "closed-form" if ev.get("branch") == "closed" else "?") + " branch)",
                      lambda: wit({"x": float(x), "expected": float(truth), "dev_over_tol": float(dev / tol) if tol > 0 else None}))
        return
    if mon.evaluations % 211 == 0:
        with mpmath.workprec(900):
            x2 = -mpmath.log(mpf(v))
            t2 = mpf(k) + mpf(v) * (c1 * x2 + c2 * x2 ** 2 + c3 * x2 ** 3 + c4 * x2 ** 4) + mpf(uu) * mpf(v) * x2 ** 5 * R(x2)
        if abs(t2 - truth) > tol * mpf(2) ** -40:
            mon.count("precision_guard_tripped")
            mon.notes.append("precision guard tripped")
        mon.count("precision_guard_checked")
    mon.sample("v:" + ev["vc"], 1, lambda: {"form": form, "v": v, "x": float(x), "result": r, "reference": float(truth), "branch": ev.get("branch")})


if __name__ == "__main__":
    main("C10", check)
