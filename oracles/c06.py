#!/usr/bin/env python3
"""C06 oracle: linear() — running-maximum breakpoints, interpolation of the (forced) knots, constant narrow
segments, straight-line evaluation for strictly increasing knots (exact rational arithmetic)."""
import sys
from fractions import Fraction

from common import U, f, fr, finite, in_domain, main, ratio

EPS = sys.float_info.epsilon
K = 16


def sel(ends, x):
    for i, e in enumerate(ends):
        if e > x:
            return i
    return len(ends) - 1


def check(mon, ev):
    xs = [f(v) for v in ev["x"]]
    ys = [f(v) for v in ev["y"]]
    ends = [f(v) for v in ev["ends"]]
    co = [[f(v) for v in c] for c in ev["co"]]
    q = [f(v) for v in ev["q"]]
    vq = [f(v) for v in ev["v"]]
    mon.case(ev["h"])
    n = len(xs)
    wit = lambda extra=None: dict({"x": ev["x"], "y": ev["y"], "x_v": xs, "y_v": ys, "ends_v": ends, "coefficients_v": co[:8], "fam": ev["fam"]}, **(extra or {}))
    if len(ends) != n - 1 or len(co) != n - 1:
        mon.violation("linear returns the wrong number of segments", lambda: wit({"segments": len(ends)}))
        return
    # forced abscissae = running maximum
    Xf = [xs[0]]
    for i in range(1, n):
        Xf.append(max(Xf[-1], xs[i]))
    for i in range(n - 1):
        if not (ends[i] == Xf[i + 1]):
            mon.violation("linear: segment end is not the running maximum of the knot abscissae", lambda: wit({"segment": i, "end": ends[i], "expected": Xf[i + 1]}))
            return
    if any(ends[i] > ends[i + 1] for i in range(n - 2)):
        mon.violation("linear: breakpoints decrease", wit)
        return
    X, Y = [fr(v) for v in Xf], [fr(v) for v in ys]
    for i in range(n - 1):
        a, b = co[i]
        if not (finite(a) and finite(b)):
            # overflow of dy/dx or of b*x is outside the domain only if the exact quantities overflow
            w = X[i + 1] - X[i]
            big = (w != 0 and not in_domain(abs(Y[i + 1] - Y[i]) / w * max(abs(X[i]), abs(X[i + 1]), 1)))
            if big or not in_domain(abs(Y[i + 1] - Y[i])):
                mon.count("out_of_domain_segment")
                continue
            mon.violation("linear returns a non-finite coefficient on in-domain knots", lambda: wit({"segment": i}))
            return
        A, B = fr(a), fr(b)
        w = X[i + 1] - X[i]
        wf = Xf[i + 1] - Xf[i]          # the subtraction as the library performs it
        if (wf < EPS) != (w < EPS):
            mon.count("ambiguous_width_skipped")
            continue
        xm = max(abs(X[i]), abs(X[i + 1]))
        mags = [abs(A), abs(B) * xm, abs(Y[i]), abs(Y[i + 1]), abs(B), abs(Y[i + 1] - Y[i])] + ([abs(Y[i + 1] - Y[i]) / w, w] if w > 0 else [])
        if not all(in_domain(v) for v in mags):
            mon.count("out_of_domain_segment")
            continue
        dev = abs(A + B * X[i] - Y[i])
        tol = K * U * (abs(A) + abs(B * X[i]) + abs(Y[i]))
        mon.ratio(ratio(dev, tol), lambda: wit({"segment": i, "check": "left knot"}))
        if dev > tol:
            mon.violation("linear: segment does not pass through its left knot", lambda: wit({"segment": i, "dev_over_tol": ratio(dev, tol)}))
            return
        if w >= EPS:
            dev = abs(A + B * X[i + 1] - Y[i + 1])
            tol = K * U * (abs(A) + abs(B) * xm + abs(Y[i]) + abs(Y[i + 1]))
            mon.ratio(ratio(dev, tol), lambda: wit({"segment": i, "check": "right knot"}))
            if dev > tol:
                mon.violation("linear: segment at least epsilon wide does not pass through its right knot", lambda: wit({"segment": i, "dev_over_tol": ratio(dev, tol)}))
                return
            mon.count("wide_segment_through_both_knots")
        else:
            if not (b == 0 and a == ys[i]):
                mon.violation("linear: segment narrower than epsilon is not constant at its left ordinate", lambda: wit({"segment": i, "a": a, "b": b, "width": float(w)}))
                return
            mon.count("narrow_segment_constant")
        mon.count("segments_checked")
    # evaluation: strictly increasing knots with gaps >= EPSILON
    Xr = [fr(v) for v in xs]
    if all(Xr[i + 1] - Xr[i] >= Fraction(EPS) for i in range(n - 1)) and all((xs[i + 1] - xs[i]) >= EPS for i in range(n - 1)):
        mon.count("strictly_increasing_inputs")
        for x, v in zip(q, vq):
            j = sel(ends, x)            # breakpoint rule of Piecewise::evaluate: knot j belongs to segment j
            a, b = co[j]
            if not (finite(a) and finite(b) and finite(x)):
                continue
            Xq = fr(x)
            xm = max(abs(Xr[j]), abs(Xr[j + 1]), abs(Xq))
            mags = [abs(fr(a)), abs(fr(b)) * xm, abs(Y[j]), abs(Y[j + 1])]
            if not all(in_domain(m_) for m_ in mags):
                mon.count("out_of_domain_evaluation")
                continue
            if not finite(v):
                mon.violation("linear result evaluates to a non-finite value on in-domain input", lambda: wit({"q": x}))
                return
            line = Y[j] + (Y[j + 1] - Y[j]) * (Xq - Xr[j]) / (Xr[j + 1] - Xr[j])
            tol = K * U * (abs(fr(a)) + abs(fr(b)) * xm + abs(Y[j]) + abs(Y[j + 1]))
            dev = abs(fr(v) - line)
            mon.count("evaluations_checked")
            if x in xs:
                mon.count("evaluations_at_a_knot")
            if x < xs[0] or x > xs[-1]:
                mon.count("evaluations_extrapolating")
            mon.ratio(ratio(dev, tol), lambda: wit({"q": x, "check": "evaluate"}))
            if dev > tol:
                mon.violation("linear result evaluated at x differs from the straight-line interpolant of the bracketing knots",
                              lambda: wit({"q": x, "segment": j, "observed": v, "expected": float(line), "dev_over_tol": ratio(dev, tol)}))
                return
    mon.sample("linear:" + ev["fam"], 1, lambda: {"x": xs[:6], "y": ys[:6], "ends": ends[:6], "first_segment": co[0]})


if __name__ == "__main__":
    main("C06", check)
