#!/usr/bin/env python3
"""C11 oracle: values of Piecewise::integral / indefinite over Poly0-7 and Log<Poly0-8> pieces (400 bits)."""
import math
from fractions import Fraction

import mpmath
from mpmath import mpf

from common import f, fr, finite, main
from logref import R, antiderivative_coeffs, fmp, magnitude_coeffs, quartic_mags

u = mpf(2) ** -53
E12 = mpf(10) ** -12
UNDERFLOW = mpf(2) ** -1000


_LOG = {}
_TAIL = {}


def clog(t):
    """cached 400-bit ln of a double"""
    v = _LOG.get(t)
    if v is None:
        if len(_LOG) > 20000:
            _LOG.clear()
        v = mpmath.log(mpf(t))
        _LOG[t] = v
    return v


def ctail(t):
    """cached x^5 R(x) for x = -ln t"""
    v = _TAIL.get(t)
    if v is None:
        if len(_TAIL) > 20000:
            _TAIL.clear()
        x = -clog(t)
        v = x ** 5 * R(x)
        _TAIL[t] = v
    return v


def sel(ends, x):
    for i, e in enumerate(ends):
        if e > x:
            return i
    return len(ends) - 1


def tiny(x):
    """arguments whose powers underflow are outside the property's domain (subnormal-scale breakpoints)"""
    return x != 0 and abs(x) < 2.0 ** -200


class Piece:
    """one piece of f with its exact zero-constant antiderivative G, and the returned piece F"""

    def __init__(self, kind, deg, p, Fnums):
        self.kind, self.deg = kind, deg
        self.P = [fr(c) for c in p]
        self.F = [mpf(v) for v in Fnums]
        self.quartic = kind == "log" and deg == 4
        if kind == "poly":
            self.Gc = [mpf(0)] + [fmp(self.P[j] / (j + 1)) for j in range(len(self.P))]
        else:
            self.Q = antiderivative_coeffs(self.P)
            self.M = magnitude_coeffs(self.P)
            self.Qm = [fmp(q) for q in self.Q]
            self.Mm = [fmp(q) for q in self.M]
            self.Mq = [fmp(q) for q in quartic_mags(self.P)] if self.quartic else None
        self.absF = [abs(c) for c in self.F]
        self._tol = {}

    def L(self, t):
        return clog(float(t))

    def G(self, t):
        t = mpf(t)
        if self.kind == "poly":
            s = mpf(0)
            for c in reversed(self.Gc):
                s = s * t + c
            return s
        L = self.L(t)
        s = mpf(0)
        for q in reversed(self.Qm):
            s = s * L + q
        return t * s

    def Fval(self, t):
        """exact value of the returned piece at t"""
        t = mpf(t)
        if self.kind == "poly":
            s = mpf(0)
            for c in reversed(self.F):
                s = s * t + c
            return s
        L = self.L(t)
        if self.quartic:
            k, c1, c2, c3, c4, uu = self.F
            x = -L
            return k + t * (c1 * x + c2 * x ** 2 + c3 * x ** 3 + c4 * x ** 4 + uu * ctail(float(t)))
        s = mpf(0)
        for q in reversed(self.F[1:]):
            s = s * L + q
        return self.F[0] + t * s

    def A(self, t):
        """magnitude of the terms of the returned piece at t"""
        t = mpf(t)
        at = abs(t)
        if self.kind == "poly":
            s = mpf(0)
            for c in reversed(self.absF):
                s = s * at + c
            return s
        L = self.L(t)
        aL = abs(L)
        # magnitudes of the construction (absolute-value recurrences on the integrand's coefficients), not of the returned
        # numbers: the recurrence q_i = p_i - (i+1) q_(i+1) may cancel, and its rounding error scales with the former
        if self.quartic:
            m1, m2, m3, m4, mu = self.Mq
            return self.absF[0] + t * (m1 * aL + m2 * aL ** 2 + m3 * aL ** 3 + m4 * aL ** 4 + mu * abs(ctail(float(t))))
        s = mpf(0)
        for c in reversed(self.Mm):
            s = s * aL + c
        return self.absF[0] + t * s

    def tol(self, t, K):
        """bound on the error of one library evaluation of the returned piece at t"""
        key = (float(t), K)
        v = self._tol.get(key)
        if v is None:
            v = self._tol[key] = self._tol_uncached(t, K)
        return v

    def _tol_uncached(self, t, K):
        a = self.A(t)
        # + underflow floor: values below 2^-960 are outside the property's domain (subnormal results lose bits)
        tol = K * u * a + UNDERFLOW
        if self.kind == "log":
            L = self.L(t)
            ulp = mpf(math.ulp(float(L))) if L != 0 else mpf(0)
            aL = abs(L)
            if self.quartic:
                m1, m2, m3, m4, mu = self.Mq
                d = m1 + 2 * m2 * aL + 3 * m3 * aL ** 2 + 4 * m4 * aL ** 3 + mu * (abs(ctail(float(t))) + aL ** 4 / 24)
                tol += E12 * a
            else:
                d = sum(j * q * aL ** (j - 1) for j, q in enumerate(self.Mm) if j > 0)
            tol += mpf(t) * d * ulp
        return tol

    def coeff_check(self, K):
        """None if the returned numbers are the antiderivative's, else (index, observed, expected)"""
        if self.kind == "poly":
            for j, pj in enumerate(self.P):
                want = fmp(pj / (j + 1))
                if abs(self.F[j + 1] - want) > 3 * u * abs(want):
                    return (j, float(self.F[j + 1]), float(want))
            return None
        if self.quartic:
            return None
        for j, q in enumerate(self.Q):
            if abs(self.F[j + 1] - self.Qm[j]) > K * u * self.Mm[j]:
                return (j, float(self.F[j + 1]), float(self.Qm[j]))
        return None


def check(mon, ev):
    kind, deg = ev["kind"], ev["deg"]
    ends = [f(e) for e in ev["ends"]]
    ps = [[f(c) for c in p] for p in ev["p"]]
    kx, ky = f(ev["kx"]), f(ev["ky"])
    Fe, Ie = [f(e) for e in ev["Fends"]], [f(e) for e in ev["Iends"]]
    Fn = [[f(c) for c in p] for p in ev["F"]]
    In = [[f(c) for c in p] for p in ev["I"]]
    qs, Fq, Iq = [f(x) for x in ev["q"]], [f(x) for x in ev["Fq"]], [f(x) for x in ev["Iq"]]
    mon.case(ev["h"])
    n = len(ends)
    K = 16 * (deg + 3)
    wit = lambda extra=None: dict({"kind": kind, "degree": deg, "ends": ev["ends"], "ends_v": ends, "pieces": ev["p"], "knot": [ev["kx"], ev["ky"]], "knot_v": [kx, ky],
                                   "integral_pieces": ev["F"][:6], "n_pieces": n}, **(extra or {}))
    for name, E, N in (("integral", Fe, Fn), ("indefinite", Ie, In)):
        if len(E) != n or len(N) != n:
            mon.violation(f"Piecewise::{name} changes the number of pieces", wit)
            return
        if any(ev["ends"][i] != (ev["Fends"] if name == "integral" else ev["Iends"])[i] for i in range(n)):
            mon.violation(f"Piecewise::{name} changes a breakpoint", wit)
            return
        if not all(finite(v) for p in N for v in p):
            mon.violation(f"Piecewise::{name} returns a non-finite number on in-domain input", wit)
            return
    if In[0][0] != 0:
        mon.violation("Piecewise::indefinite: first piece has a non-zero additive constant", wit)
        return
    for name, N, base in (("integral", Fn, (kx, ky)), ("indefinite", In, None)):
        pcs = [Piece(kind, deg, ps[i], N[i]) for i in range(n)]
        # ---- each piece is an antiderivative of the corresponding piece of f
        for i, pc in enumerate(pcs):
            bad = pc.coeff_check(K)
            if bad:
                mon.violation(f"Piecewise::{name}: a piece is not an antiderivative of the corresponding piece (coefficients)",
                              lambda: wit({"piece": i, "coefficient": bad[0], "observed": bad[1], "expected": bad[2]}))
                return
            big = lambda e: not (abs(e) < 1e6)
            hi = ends[i]
            if i > 0:
                lo = ends[i - 1]
            elif big(hi):
                lo = 1.0 if kind == "log" else -1.0
            else:
                lo = hi - (1.0 if kind == "poly" else 0.5 * hi)
            if big(lo):
                continue                      # a piece that starts beyond 1e6: nothing is evaluated there
            if hi == lo or big(hi):
                hi = lo + (1.0 if kind == "poly" else 0.5 * lo)
            a, b = lo + 0.25 * (hi - lo), lo + 0.75 * (hi - lo)
            if tiny(a) or tiny(b):
                mon.count("point_underflow_out_of_domain")
                continue
            dv = (pc.Fval(b) - pc.Fval(a)) - (pc.G(b) - pc.G(a))
            tl = pc.tol(a, K) + pc.tol(b, K)
            if tl > 0:
                mon.ratio(float(abs(dv) / tl), lambda: wit({"check": name + " piece antiderivative", "piece": i}))
            if not (abs(dv) <= tl):
                mon.violation(f"Piecewise::{name}: a piece is not an antiderivative of the corresponding piece (values)",
                              lambda: wit({"piece": i, "a": a, "b": b, "dev_over_tol": float(abs(dv) / tl) if tl > 0 else None}))
                return
        mon.count("antiderivative_checked")
        # ---- first piece through the knot
        if base is not None and tiny(kx):
            mon.count("point_underflow_out_of_domain")
        elif base is not None:
            v0 = pcs[0].Fval(kx)
            tl = pcs[0].tol(kx, K) + K * u * abs(mpf(ky))
            if tl > 0:
                mon.ratio(float(abs(v0 - mpf(ky)) / tl), lambda: wit({"check": "first piece through knot"}))
            if not (abs(v0 - mpf(ky)) <= tl):
                mon.violation("Piecewise::integral: first piece does not pass through the knot", lambda: wit({"value_at_knot_x": float(v0)}))
                return
        # ---- continuity at interior breakpoints
        for i in range(n - 1):
            e = ends[i]
            if tiny(e):
                mon.count("point_underflow_out_of_domain")
                continue
            l, r = pcs[i].Fval(e), pcs[i + 1].Fval(e)
            tl = pcs[i].tol(e, K) + pcs[i + 1].tol(e, K)
            if tl > 0:
                mon.ratio(float(abs(l - r) / tl), lambda: wit({"check": name + " continuity", "i": i}))
            if not (abs(l - r) <= tl):
                mon.violation(f"Piecewise::{name}: adjacent pieces disagree at an interior breakpoint",
                              lambda: wit({"i": i, "breakpoint": e, "left": float(l), "right": float(r), "dev_over_tol": float(abs(l - r) / tl) if tl > 0 else None}))
                return
        mon.count("continuity_checked")
        # ---- global: F(t) = k0.y + integral of f from k0.x to t  (only when k0.x is in the first piece's domain)
        if base is not None and not (kx < ends[0]):
            mon.count("knot_outside_first_piece_global_skipped")
            continue
        if base is not None:
            bx, by = mpf(kx), mpf(ky)
            acc0 = pcs[0].tol(kx, K) + K * u * abs(by)
        else:
            # indefinite(): the normalisation of the first piece is the representation's own (additive constant
            # field zero); anchor the comparison at the returned first piece's exact value at its right end
            e0 = ends[0] if abs(ends[0]) < 1e6 else (1.0 if kind == "log" else 0.0)   # open-ended single piece
            bx, by = mpf(e0), pcs[0].Fval(e0)
            acc0 = pcs[0].tol(e0, K)
        # prefix sums over whole pieces
        pre = [mpf(0)] * n          # pre[j] = integral of f from bx to e_{j-1}  (start of piece j), j >= 1
        acc = [acc0] * n
        run = pcs[0].G(ends[0]) - pcs[0].G(bx)
        racc = acc0
        for j in range(1, n):
            racc = racc + pcs[j - 1].tol(ends[j - 1], K) + pcs[j].tol(ends[j - 1], K)
            pre[j] = run
            acc[j] = racc
            run = run + (pcs[j].G(ends[j]) - pcs[j].G(ends[j - 1]))
        vals = Fq if base is not None else Iq
        for t, got in zip(qs, vals):
            if tiny(t):
                mon.count("query_underflow_out_of_domain")   # powers of t underflow: outside the property's domain
                continue
            j = sel(ends, t)
            if j == 0:
                truth = by + pcs[0].G(t) - pcs[0].G(bx)
            else:
                truth = by + pre[j] + (pcs[j].G(t) - pcs[j].G(ends[j - 1]))
            if not finite(got):
                mon.violation(f"Piecewise::{name}: evaluate returns a non-finite value", lambda: wit({"t": t}))
                return
            tl = acc[j] + pcs[j].tol(t, K)
            dv = abs(mpf(got) - truth)
            mon.count("global_integral_checked")
            if tl > 0:
                mon.ratio(float(dv / tl), lambda: wit({"check": name + " global", "t": t}))
            if not (dv <= tl):
                mon.violation(f"Piecewise::{name}: evaluate(t) differs from k0.y + integral of f from k0.x to t",
                              lambda: wit({"t": t, "segment": j, "observed": got, "expected": float(truth), "dev_over_tol": float(dv / tl) if tl > 0 else None}))
                return
    mon.sample(f"{kind}:{deg}", 1, lambda: {"kind": kind, "degree": deg, "ends": ends[:8], "first_piece": ps[0], "knot": [kx, ky], "queries": len(qs)})


if __name__ == "__main__":
    main("C11", check)
