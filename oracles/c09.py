#!/usr/bin/env python3
"""C09 oracle: integral(knot)/indefinite() of Log<Poly0..8> against the exact antiderivative t*Q(ln t)."""
import math
from fractions import Fraction

import mpmath
from mpmath import mpf

from common import f, fr, finite, main
from logref import (G, S_generic, S_quartic, antiderivative_coeffs, dS_generic, dS_quartic, fmp, magnitude_coeffs,
                    quartic_mags)

u = mpf(2) ** -53
LO, HI = mpf(2) ** -960, mpf(2) ** 1000


def rng_ok(v):
    return v == 0 or (LO <= abs(v) <= HI)


def check(mon, ev):
    n = ev["deg"]
    cs = [f(c) for c in ev["c"]]
    kx, ky, a, b = f(ev["kx"]), f(ev["ky"]), f(ev["a"]), f(ev["b"])
    ind = [f(c) for c in ev["ind"]]
    F = [f(c) for c in ev["F"]]
    Fk, Fa, Fb, Ia, Ib = (f(ev[k]) for k in ("Fk", "Fa", "Fb", "Ia", "Ib"))
    mon.case(ev["h"])
    wit = lambda extra=None: dict({"degree": n, "p": ev["c"], "knot": [ev["kx"], ev["ky"]], "a": ev["a"], "b": ev["b"], "integral": ev["F"],
                                   "p_v": cs, "knot_v": [kx, ky], "a_v": a, "b_v": b, "F_v": F, "Fa": Fa, "Fb": Fb}, **(extra or {}))
    if not all(t > 0 and finite(t) for t in (kx, a, b)) or not finite(ky):
        mon.count("out_of_domain")
        return
    P = [fr(c) for c in cs]
    Q = antiderivative_coeffs(P)
    quartic = (n == 4)
    K = 16 * (n + 3)
    # the quartic form evaluates an approximated exponential tail whose stated accuracy (C10) is 1e-12 of the
    # term magnitudes: that is part of "the rounding bound of the construction" for degree 4
    KU = K * u + (mpf(10) ** -12 if quartic else 0)
    Lk, La, Lb = mpmath.log(mpf(kx)), mpmath.log(mpf(a)), mpmath.log(mpf(b))
    if quartic:
        Mq = quartic_mags(P)
        S = lambda t, L: S_quartic(Mq, t, L)
        dS = lambda t, L: dS_quartic(Mq, t, L)
    else:
        M = magnitude_coeffs(P)
        S = lambda t, L: S_generic(M, t, L)
        dS = lambda t, L: dS_generic(M, t, L)
    Sk, Sa, Sb = S(kx, Lk), S(a, La), S(b, Lb)
    ulp = lambda L: mpf(math.ulp(float(L))) if L != 0 else mpf(0)
    lnk, lna, lnb = dS(kx, Lk) * ulp(Lk), dS(a, La) * ulp(La), dS(b, Lb) * ulp(Lb)
    if quartic:
        # the quartic form computes u * x^5 R(x) ~ u * e^|ln t| before multiplying by t: that intermediate must not overflow
        worst = max(abs(Lk), abs(La), abs(Lb))
        if worst > 700 or not rng_ok(fmp(Mq[4]) * mpmath.exp(worst)) or not all(rng_ok(fmp(Mq[j]) * worst ** (j + 1)) for j in range(4)):
            mon.count("out_of_domain")
            return
    # the polynomial part q(ln t) is formed before it is multiplied by t: it must not overflow either
    mags = [Sk, Sa, Sb, Sk / mpf(kx), Sa / mpf(a), Sb / mpf(b), abs(mpf(ky))] + [abs(fmp(q)) for q in Q]
    if not all(rng_ok(v) for v in mags) or any(not rng_ok(abs(L) ** n) for L in (Lk, La, Lb) if L != 0):
        mon.count("out_of_domain")
        return
    if not all(finite(v) for v in ind + F + [Fk, Fa, Fb, Ia, Ib]):
        mon.violation("log integral returns a non-finite number on in-domain input", wit)
        return
    # ---- representation: additive constant of indefinite() is zero; non-quartic coefficients are Q
    if ind[0] != 0:
        mon.violation("indefinite() of a log-polynomial has a non-zero additive constant", wit)
        return
    if not quartic:
        for name, nums in (("indefinite", ind), ("integral", F)):
            if len(nums) != n + 2:
                mon.violation("log integral has the wrong number of coefficients", wit)
                return
            for i in range(n + 1):
                dev = abs(mpf(nums[i + 1]) - fmp(Q[i]))
                tol = K * u * fmp(M[i])
                if tol > 0:
                    mon.ratio(float(dev / tol), lambda: wit({"check": "recurrence coefficient", "i": i}))
                if not (dev <= tol):
                    mon.violation(f"{name}() coefficient differs from the antiderivative recurrence q_i = p_i - (i+1) q_(i+1)",
                                  lambda: wit({"i": i, "observed": nums[i + 1], "expected": float(fmp(Q[i]))}))
                    return
        mon.count("coefficients_checked")
    else:
        mon.count("coefficients_checked")  # quartic: representation-free, decided by values only
    # ---- F(knot.x) = knot.y
    tol = KU * (Sk + abs(mpf(ky))) + lnk
    dev = abs(mpf(Fk) - mpf(ky))
    mon.count("knot_checked")
    if tol > 0:
        mon.ratio(float(dev / tol), lambda: wit({"check": "through knot"}))
    if not (dev <= tol):
        mon.violation("integral(knot) of a log-polynomial does not pass through the knot", lambda: wit({"F_at_knot_x": Fk, "dev_over_tol": float(dev / tol) if tol > 0 else None}))
        return
    # ---- F(b) - F(a) = integral of p(ln t) over [a, b]
    truth = G(Q, b, Lb) - G(Q, a, La)
    for name, va, vb, extra_tol in (("integral", Fa, Fb, 2 * (Sk + abs(mpf(ky)))), ("indefinite", Ia, Ib, mpf(0))):
        tol = KU * (Sa + Sb + extra_tol) + lna + lnb
        dev = abs((mpf(vb) - mpf(va)) - truth)
        mon.count("area_checked")
        if tol > 0:
            mon.ratio(float(dev / tol), lambda: wit({"check": name + " area"}))
            key = "max_ratio_degree_%d" % n
            if not mon.in_canary:
                mon.extra[key] = max(mon.extra.get(key, 0.0), float(dev / tol))
        if not (dev <= tol):
            which = "quartic" if quartic else "non-quartic"
            mon.violation(f"{name} of a {which} log-polynomial: F(b)-F(a) differs from the true integral over [a,b]",
                          lambda: wit({"which": name, "observed": vb - va, "expected": float(truth), "dev_over_tol": float(dev / tol) if tol > 0 else None}))
            return
    # precision guard on a sample
    if mon.evaluations % 101 == 0:
        with mpmath.workprec(800):
            t2 = G(Q, b) - G(Q, a)
        if abs(t2 - truth) > tol * mpf(2) ** -30:
            mon.count("precision_guard_tripped")
            mon.notes.append("precision guard tripped")
        mon.count("precision_guard_checked")
    mon.sample(f"degree:{n}", 1, lambda: {"degree": n, "p": cs, "knot": [kx, ky], "a": a, "b": b, "F(b)-F(a)": Fb - Fa, "true_integral": float(truth)})


if __name__ == "__main__":
    main("C09", check)
