#!/usr/bin/env python3
"""C01 oracle: exact rational value of sum c_i x^i; 400-bit ln for Log forms."""
import math
from fractions import Fraction

import mpmath

from common import U, f, fr, finite, in_domain, main, ratio, hx

mpmath.mp.prec = 400
GUARD_EVERY = 97   # precision guard: every 97th Log event is recomputed at 800 bits


def exact_class(cs, x, n):
    """True when every intermediate of any evaluation scheme is exactly representable."""
    nz = [c for c in cs if c != 0]
    if not nz:
        return True
    if x == 0:
        return True
    # c_i = m_i * 2^a with a common a ; x = k * 2^e with k odd
    def expo(v):
        m, e = math.frexp(v)          # v = m * 2^e, 0.5 <= |m| < 1
        mi = int(m * (1 << 53))
        e -= 53
        while mi % 2 == 0:
            mi //= 2
            e += 1
        return mi, e
    a = min(expo(c)[1] for c in nz)
    k, e = expo(x)
    if abs(k) ** n >= 2 ** 53:
        return False
    grid = a + n * min(e, 0)
    if grid < -1022:
        return False
    bound = sum(abs(fr(c)) for c in nz) * max(Fraction(1), abs(fr(x))) ** n
    return bound / Fraction(2) ** grid < 2 ** 53


def check(mon, ev):
    form = ev["form"]
    cs = [f(c) for c in ev["c"]]
    x = f(ev["x"])
    r = f(ev["r"])
    n = max(len(cs) - 1, 0)
    mon.case(ev["h"])
    wit = lambda extra=None: dict({"form": form, "c": ev["c"], "x": ev["x"], "r": ev["r"], "c_v": cs, "x_v": x, "r_v": r}, **(extra or {}))
    if not ev["log"]:
        if len(cs) == 0:
            mon.count("polyn_empty")
            if r != 0:
                mon.violation("evaluate empty PolyN is not 0", wit)
            return
        X = fr(x)
        C = [fr(c) for c in cs]
        terms = [abs(C[i]) * abs(X) ** i for i in range(len(C))]
        slack = Fraction(0)
        low_terms = []
        if x != 0 and abs(X) < 1 and not all(in_domain(abs(X) ** i) for i in range(1, n + 1)):
            # |x| so small that x^i underflows for i >= j: any scheme multiplies partial sums of the c_i by such powers;
            # whatever it gets for them (0 or a subnormal), the effect is at most |c_i| * 2^-1072 each. Terms that are
            # themselves normal keep their relative bound.
            j = next(i for i in range(1, n + 1) if not in_domain(abs(X) ** i))
            # + the products c_i * x^i that are themselves subnormal: absolute error up to 2^-1074 per operation
            slack = (sum(abs(C[i]) for i in range(j, len(C))) + 4 * (n + 2)) * Fraction(1, 2 ** 1072)
            if all(in_domain(abs(c)) for c in C) and all(in_domain(terms[i]) for i in range(j)):
                mon.count("tiny_argument_with_underflowing_powers")
                low_terms = terms[j:]      # kept in the relative bound (they may still be normal numbers)
                terms = terms[:j]
            else:
                mon.count("out_of_domain")
                return
        # every power x^i, i <= n, is formed by some scheme even where c_i = 0 (0 * inf = NaN): overflow is out of domain
        powers_ok = abs(X) <= 1 or all(in_domain(abs(X) ** i) for i in range(1, n + 1))
        # any scheme forms sub-expressions c_i * x^j with 0 <= j <= i (e.g. c6 + c7*x in Estrin/Horner): the coefficient
        # itself and the full term bracket all of them
        if not (powers_ok and all(in_domain(t) for t in terms) and all(in_domain(abs(c)) for c in C)):
            mon.count("out_of_domain")
            return
        S = sum(C[i] * X ** i for i in range(len(C)))
        if not finite(r):
            mon.violation("evaluate returns non-finite value on in-domain input", wit)
            return
        R = fr(r)
        A = sum(terms) + sum(low_terms)
        if slack == 0 and exact_class(cs, x, n):
            mon.count("exact_class")
            if R != S:
                mon.violation("evaluate not exact although every partial term is exactly representable", lambda: wit({"expected": float(S)}))
            return
        mon.count("bounded_class")
        tol = 4 * (n + 2) * U * A + slack
        dev = abs(R - S)
        mon.ratio(ratio(dev, tol), lambda: wit())
        if dev > tol:
            mon.violation("evaluate deviates by more than 4(n+2)u*sum|c_i||x|^i", lambda: wit({"expected": float(S), "dev_over_tol": ratio(dev, tol)}))
        mon.sample("poly:" + ev["cc"], 1, lambda: {"form": form, "c": cs, "x": x, "result": r, "exact": float(S)})
        return
    # Log forms: p(ln v)
    if not (x > 0 and finite(x)):
        mon.count("out_of_domain")
        return
    L = mpmath.log(mpmath.mpf(x))
    aL = abs(L)
    C = [mpmath.mpf(c) for c in cs]
    terms = [abs(C[i]) * aL ** i for i in range(len(C))]
    lo, hi = mpmath.mpf(2) ** -960, mpmath.mpf(2) ** 1000
    if any((c != 0 and not (lo <= abs(c) <= hi)) for c in C) or any((t != 0 and not (lo <= t <= hi)) for t in terms) or (aL != 0 and any(not (lo <= aL ** i <= hi) for i in range(1, n + 1))):
        mon.count("out_of_domain")
        return
    S = sum(C[i] * L ** i for i in range(len(C)))
    if not finite(r):
        mon.violation("Log evaluate returns non-finite value on in-domain input", wit)
        return
    A = sum(terms)
    Lf = float(L)
    ulpL = math.ulp(Lf) if Lf != 0 else 0.0
    dS = sum(i * abs(C[i]) * aL ** (i - 1) for i in range(1, len(C)))
    u = mpmath.mpf(2) ** -53
    tol = 4 * (n + 2) * u * A + dS * ulpL
    dev = abs(mpmath.mpf(r) - S)
    mon.count("log_bounded_class")
    mon.count("bounded_class")
    if mon.evaluations % GUARD_EVERY == 0:
        with mpmath.workprec(800):
            L2 = mpmath.log(mpmath.mpf(x))
            S2 = sum(mpmath.mpf(c) * L2 ** i for i, c in enumerate(cs))
            if abs(S2 - S) > tol * mpmath.mpf(2) ** -40 and abs(S2 - S) > 0:
                mon.notes.append("precision guard tripped")
                mon.count("precision_guard_tripped")
                return
        mon.count("precision_guard_checked")
    rr = float(dev / tol) if tol != 0 else (0.0 if dev == 0 else float("inf"))
    mon.ratio(rr, lambda: wit())
    if not (dev <= tol):
        mon.violation("Log evaluate deviates by more than the bound (4(n+2)u*sum|c_i||ln v|^i + propagated ulp of ln)",
                      lambda: wit({"expected": float(S), "dev_over_tol": rr}))
    mon.sample("log:" + ev["xc"], 1, lambda: {"form": form, "c": cs, "v": x, "result": r, "reference": float(S)})


if __name__ == "__main__":
    main("C01", check)
