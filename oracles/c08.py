#!/usr/bin/env python3
"""C08 oracle: derivative coefficients vs exact (i+1) c_{i+1}; value vs exact p'(x)."""
import math
from fractions import Fraction

from common import U, f, fr, finite, in_domain, main, ratio


def check(mon, ev):
    form = ev["form"]
    cs = [f(c) for c in ev["c"]]
    x = f(ev["x"])
    D = [f(c) for c in ev["D"]]
    Dx = f(ev["Dx"])
    n = len(cs) - 1
    mon.case(ev["h"])
    wit = lambda extra=None: dict({"form": form, "c": ev["c"], "x": ev["x"], "D": ev["D"], "c_v": cs, "D_v": D}, **(extra or {}))
    if n == 0:
        mon.count("degree0")
        if len(D) != 1 or D[0] != 0:
            mon.violation("derivative of a constant is not the zero constant", wit)
        return
    if len(D) != n:
        mon.violation("derivative has the wrong degree", wit)
        return
    C = [fr(c) for c in cs]
    want = [(i + 1) * C[i + 1] for i in range(n)]
    FMAX, FMIN = fr(1.7976931348623157e308), fr(2.2250738585072014e-308)
    if not all(w == 0 or FMIN <= abs(w) <= FMAX for w in want):
        mon.count("out_of_domain")       # the exact product itself is not a normal double
        return
    if any(abs(w) > Fraction(2) ** 1000 for w in want):
        mon.count("coefficients_near_overflow_checked")
    for i in range(n):
        if not finite(D[i]):
            mon.violation("derivative returns a non-finite coefficient", wit)
            return
        k = i + 1
        if k in (1, 2, 4, 8):
            mon.count("exact_factor")
            if fr(D[i]) != want[i]:
                mon.violation("derivative coefficient with power-of-two factor is not exact", lambda: wit({"i": i, "observed": D[i], "expected": float(want[i])}))
                return
        else:
            mon.count("rounded_factor")
            wf = float(want[i])
            if abs(fr(D[i]) - want[i]) > fr(math.ulp(wf)):
                mon.violation("derivative coefficient differs from (i+1)c_(i+1) by more than one ulp", lambda: wit({"i": i, "observed": D[i], "expected": wf}))
                return
    # value: derivative().evaluate(x) vs exact p'(x)
    X = fr(x)
    aX = abs(X)
    terms = [abs(want[i]) * aX ** i for i in range(n)]
    if not all(in_domain(abs(w)) for w in want) or not all(in_domain(t) for t in terms) or (aX != 0 and not all(in_domain(aX ** i) for i in range(1, n))):
        mon.count("out_of_domain_value")
        return
    if not finite(Dx):
        mon.violation("derivative evaluates to a non-finite value on in-domain input", wit)
        return
    truth = sum(want[i] * X ** i for i in range(n))
    tol = (4 * (n + 1) + 2) * U * sum(terms)
    dev = abs(fr(Dx) - truth)
    mon.count("value_checked")
    mon.ratio(ratio(dev, tol), lambda: wit({"check": "value"}))
    if dev > tol:
        mon.violation("derivative().evaluate(x) differs from the exact p'(x)", lambda: wit({"observed": Dx, "expected": float(truth), "dev_over_tol": ratio(dev, tol)}))
    mon.sample("derivative:" + form, 1, lambda: {"form": form, "p": cs, "derivative": D, "x": x, "p'(x)": Dx})


if __name__ == "__main__":
    main("C08", check)
