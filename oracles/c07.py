#!/usr/bin/env python3
"""C07 oracle: exact rational check of indefinite(), integral(knot) and derivative-of-integral."""
import math
from fractions import Fraction

from common import U, f, fr, finite, in_domain, main, ratio


def peval(C, X):
    s = Fraction(0)
    for c in reversed(C):
        s = s * X + c
    return s


def pmag(C, X):
    aX = abs(X)
    return sum(abs(c) * aX ** i for i, c in enumerate(C))


def dom(C, X):
    """None if evaluating sum C_i X^i is outside the domain (a term, coefficient or power over/underflows), else the
    absolute slack to add to the tolerance. Powers of a tiny |X| that underflow are allowed: whatever a scheme gets for
    them (0 or a subnormal) changes the result by at most |C_i| * 2^-1072 each."""
    aX = abs(X)
    slack = Fraction(0)
    under = False
    if aX > 1 and not all(in_domain(aX ** i) for i in range(1, len(C))):
        return None          # a power overflows: even a zero lane gives 0 * inf = NaN in an unrolled scheme
    for i, c in enumerate(C):
        if c == 0:
            continue
        if not in_domain(abs(c)):
            return None
        p = aX ** i
        if i and aX != 0 and not in_domain(p):
            if aX < 1:
                under = True
            else:
                return None
        if under and i and not in_domain(p):
            # the power (and possibly the term itself) is subnormal or zero: absolute errors up to 2^-1074 per operation
            slack += (abs(c) + 8) * Fraction(1, 2 ** 1072)
            continue
        if not in_domain(abs(c) * p):
            return None
    return slack


def terms_ok(C, X):
    return dom(C, X) is not None


def check(mon, ev):
    form = ev["form"]
    cs = [f(c) for c in ev["c"]]
    n = len(cs) - 1
    kx, ky, a, b = f(ev["kx"]), f(ev["ky"]), f(ev["a"]), f(ev["b"])
    ind = [f(c) for c in ev["ind"]]
    F = [f(c) for c in ev["F"]]
    dF = [f(c) for c in ev["dF"]]
    Fk, Fa, Fb, Ia, Ib = f(ev["Fk"]), f(ev["Fa"]), f(ev["Fb"]), f(ev["Ia"]), f(ev["Ib"])
    mon.case(ev["h"])
    wit = lambda extra=None: dict({"via": ev.get("via", "function"), "form": form, "c": ev["c"], "knot": [ev["kx"], ev["ky"]], "a": ev["a"], "b": ev["b"],
                                   "indefinite": ev["ind"], "integral": ev["F"], "c_v": cs, "knot_v": [kx, ky], "F_v": F}, **(extra or {}))
    if len(ind) != n + 2 or len(F) != n + 2 or len(dF) != n + 1:
        mon.violation("integral has the wrong degree", wit)
        return
    C = [fr(c) for c in cs]
    # coefficient domain: c_i/(i+1) must stay normal
    if not all(in_domain(abs(c) / (i + 1)) for i, c in enumerate(C)):
        mon.count("out_of_domain")
        return
    # the additive constant F[0] = knot.y - indefinite.evaluate(knot.x) is only required to be finite when that
    # evaluation is inside the domain (no overflowing term); the other coefficients are c_i/(i+1)
    knot_in_domain = dom([Fraction(0)] + [C[i] / (i + 1) for i in range(n + 1)], fr(kx)) is not None and in_domain(abs(fr(ky)))
    if not all(finite(v) for v in ind + F[1:] + dF) or (knot_in_domain and not finite(F[0])):
        mon.violation("integral returns a non-finite coefficient on finite input", wit)
        return
    if not finite(F[0]):
        mon.count("out_of_domain")
        return
    # ---- indefinite(): zero constant, c_i/(i+1)
    if ind[0] != 0:
        mon.violation("indefinite() has a non-zero constant term", wit)
        return
    for which, Q in (("indefinite", ind), ("integral", F)):
        for i in range(n + 1):
            want = C[i] / (i + 1)
            dev = abs(fr(Q[i + 1]) - want)
            tol = 3 * U * abs(want)
            mon.ratio(ratio(dev, tol), lambda: wit({"check": which + " coefficient", "i": i}))
            if dev > tol:
                mon.violation(f"{which}() coefficient {('differs from c_i/(i+1)')}", lambda: wit({"i": i, "observed": Q[i + 1], "expected": float(want)}))
                return
    mon.count("coefficients_checked")
    # ---- derivative of the result returns p within one ulp
    for i in range(n + 1):
        if abs(dF[i] - cs[i]) > math.ulp(cs[i]):
            mon.violation("derivative of integral differs from the integrand by more than one ulp", lambda: wit({"i": i, "observed": dF[i], "expected": cs[i]}))
            return
    # ---- passes through the knot (exact evaluation of the returned F)
    KX, KY = fr(kx), fr(ky)
    FQ = [fr(c) for c in F]
    if not (terms_ok(FQ[1:], KX) and in_domain(abs(KY)) and terms_ok([Fraction(0)] + FQ[1:], KX)):
        mon.count("out_of_domain_knot")
    else:
        hi = pmag([Fraction(0)] + FQ[1:], KX)
        dev = abs(peval(FQ, KX) - KY)
        tol = (4 * (n + 3) + 2) * U * (hi + abs(KY)) + 2 * dom([Fraction(0)] + FQ[1:], KX)
        if dom([Fraction(0)] + FQ[1:], KX) > 0:
            mon.count("tiny_knot_with_underflowing_powers")
        mon.count("knot_checked")
        mon.ratio(ratio(dev, tol), lambda: wit({"check": "through knot"}))
        if dev > tol:
            mon.violation("integral(knot) does not pass through the knot", lambda: wit({"F_at_knot_x": float(peval(FQ, KX)), "dev_over_tol": ratio(dev, tol)}))
            return
        # the library's own evaluation at the knot
        if finite(Fk):
            tol2 = tol + 4 * (n + 3) * U * pmag(FQ, KX)
            if abs(fr(Fk) - KY) > tol2:
                mon.violation("integral(knot).evaluate(knot.x) differs from knot.y", lambda: wit({"observed": Fk}))
                return
    # ---- F(b) - F(a) = exact integral of p over [a, b]  (through the library's evaluate)
    A_, B_ = fr(a), fr(b)
    P1 = [Fraction(0)] + [C[i] / (i + 1) for i in range(n + 1)]       # exact antiderivative
    for name, Q, va, vb in (("integral", FQ, Fa, Fb), ("indefinite", [fr(c) for c in ind], Ia, Ib)):
        if not (terms_ok(Q, A_) and terms_ok(Q, B_)):
            mon.count("out_of_domain_ab")
            continue
        if not (finite(va) and finite(vb)):
            mon.violation(f"{name} evaluates to a non-finite value on in-domain input", wit)
            return
        diff = fr(vb) - fr(va)      # the user's subtraction, done exactly here (its rounding is not the library's)
        truth = peval(P1, B_) - peval(P1, A_)
        tol = (4 * (n + 3) + 4) * U * (pmag(Q, A_) + pmag(Q, B_)) + 2 * (dom(Q, A_) + dom(Q, B_))
        dev = abs(diff - truth)
        mon.count("area_checked")
        mon.ratio(ratio(dev, tol), lambda: wit({"check": name + " area"}))
        if dev > tol:
            mon.violation(f"{name}: F(b)-F(a) differs from the exact integral of p over [a,b]",
                          lambda: wit({"observed": float(diff), "expected": float(truth), "dev_over_tol": ratio(dev, tol)}))
            return
    mon.sample("integral:" + form, 1, lambda: {"form": form, "p": cs, "knot": [kx, ky], "F": F, "a": a, "b": b, "F(b)-F(a)": Fb - Fa})


if __name__ == "__main__":
    main("C07", check)
