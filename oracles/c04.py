#!/usr/bin/env python3
"""C04 oracle: constrained_spline interpolates its knots with the exact Kruger slopes (rational arithmetic)."""
from fractions import Fraction

from common import U, f, fr, finite, in_domain, main, ratio

K = 64


def kruger(X, Y):
    n = len(X)
    s = [(Y[i + 1] - Y[i]) / (X[i + 1] - X[i]) for i in range(n - 1)]
    d = [None] * n
    for i in range(1, n - 1):
        d[i] = Fraction(0) if s[i - 1] * s[i] <= 0 else 2 / (1 / s[i - 1] + 1 / s[i])
    d[0] = Fraction(3, 2) * s[0] - d[1] / 2
    d[n - 1] = Fraction(3, 2) * s[n - 2] - d[n - 2] / 2
    return s, d


def peval(C, x):
    return ((C[3] * x + C[2]) * x + C[1]) * x + C[0]


def pder(C, x):
    return (3 * C[3] * x + 2 * C[2]) * x + C[1]


class NotFinite(Exception):
    pass


def decode(ev):
    xs = [f(v) for v in ev["x"]]
    ys = [f(v) for v in ev["y"]]
    if not all(finite(v) for v in xs + ys):
        raise NotFinite()
    ends = [f(v) for v in ev["ends"]]
    co = [[f(v) for v in c] for c in ev["co"]]
    return xs, ys, ends, co


def domain(X, Y, s):
    """every magnitude the construction touches stays in the normal range"""
    vals = [abs(v) for v in X + Y + s]
    vals += [abs(X[i + 1] - X[i]) for i in range(len(X) - 1)]
    # the product of adjacent secants is used only for its sign: overflowing to inf keeps it, underflowing to 0 loses it
    if any(0 < abs(s[i] * s[i + 1]) < Fraction(1, 2 ** 960) for i in range(len(s) - 1)):
        return False
    xm = max(abs(v) for v in X)
    vals += [xm ** 3, xm ** 3 * max([abs(v) for v in s] + [Fraction(0)])]
    for i in range(len(s)):
        dx = X[i + 1] - X[i]
        vals += [abs(s[i]) / dx, abs(s[i]) / dx / dx, abs(s[i]) / dx * xm, abs(s[i]) / dx / dx * xm ** 3, abs(s[i]) / dx * xm ** 2]
    return all(in_domain(v) for v in vals)


def hermite(mon, ev, wit, X, Y, xs, ends, co, s, d, count=True):
    """structure + interpolation + C1 with the Kruger slopes; returns list of (T, TD) per segment or None"""
    n = len(X)
    if len(ends) != n - 1 or len(co) != n - 1:
        mon.violation("constrained_spline returns the wrong number of pieces", lambda: wit({"pieces": len(ends), "knots": n}))
        return None
    for i in range(n - 1):
        if ev["ends"][i] != ev["x"][i + 1]:
            mon.violation("constrained_spline: segment end is not the interval's right abscissa", lambda: wit({"segment": i}))
            return None
    out = []
    for i in range(n - 1):
        if not all(finite(c) for c in co[i]):
            mon.violation("constrained_spline returns a non-finite coefficient on in-domain knots", lambda: wit({"segment": i}))
            return None
        C = [fr(c) for c in co[i]]
        x0, x1, y0, y1 = X[i], X[i + 1], Y[i], Y[i + 1]
        xm = max(abs(x0), abs(x1))
        T = abs(y0) + abs(y1) + sum(abs(C[j]) * xm ** j for j in range(4))
        TD = abs(s[i]) + abs(d[i]) + abs(d[i + 1]) + sum(j * abs(C[j]) * xm ** (j - 1) for j in range(1, 4))
        if not all(in_domain(abs(C[j]) * xm ** j) for j in range(4)):
            mon.count("out_of_domain_segment")
            out.append(None)
            continue
        checks = (("left ordinate", abs(peval(C, x0) - y0), K * U * T), ("right ordinate", abs(peval(C, x1) - y1), K * U * T),
                  ("left slope", abs(pder(C, x0) - d[i]), K * U * TD), ("right slope", abs(pder(C, x1) - d[i + 1]), K * U * TD))
        for name, dev, tol in checks:
            mon.ratio(ratio(dev, tol), lambda: wit({"segment": i, "check": name}))
            if dev > tol:
                kind = "does not interpolate its knot" if "ordinate" in name else "first derivative at the knot differs from the Kruger slope"
                mon.violation(f"constrained_spline: cubic {kind}", lambda: wit({"segment": i, "check": name, "dev_over_tol": ratio(dev, tol),
                                                                                "expected_slopes": [float(d[i]), float(d[i + 1])]}))
                return None
        if count:
            mon.count("segments_checked")
            if 0 < i and s[i - 1] * s[i] <= 0:
                mon.count("zero_slope_knots")
        out.append((T, TD, C))
    return out


def check(mon, ev):
    try:
        xs, ys, ends, co = decode(ev)
    except NotFinite:
        mon.count("out_of_domain")      # the property is about finite knots
        return
    mon.case(ev["h"])
    wit = lambda extra=None: dict({"x": ev["x"], "y": ev["y"], "x_v": xs, "y_v": ys, "coefficients": ev["co"][:8], "fam": [ev["xf"], ev["yf"]]}, **(extra or {}))
    X, Y = [fr(v) for v in xs], [fr(v) for v in ys]
    s, d = kruger(X, Y)
    if not domain(X, Y, s):
        mon.count("out_of_domain")
        return
    hermite(mon, ev, wit, X, Y, xs, ends, co, s, d)
    mon.sample("spline:" + ev["yf"], 1, lambda: {"x": xs[:6], "y": ys[:6], "first_cubic": co[0], "knots": len(xs)})


if __name__ == "__main__":
    main("C04", check)
