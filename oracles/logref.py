"""400-bit reference for the log-integral forms."""
from fractions import Fraction

import mpmath
from mpmath import mpf

mpmath.mp.prec = 400

_FACT = [1]
for _i in range(1, 200):
    _FACT.append(_FACT[-1] * _i)


def R(x):
    """R(x) = sum_{m>=0} x^m/(m+5)!  = (e^x - sum_{j<5} x^j/j!)/x^5 ; series where the closed form cancels"""
    x = mpf(x)
    if abs(x) < 2:
        s = mpf(0)
        term = mpf(1) / 120
        m = 0
        eps = mpf(2) ** (-mpmath.mp.prec - 20)
        while True:
            s += term
            m += 1
            term = term * x / (m + 5)
            if abs(term) < eps * abs(s) or m > 400:
                break
        return s
    with mpmath.workprec(mpmath.mp.prec + 64):
        p = sum(x ** j / _FACT[j] for j in range(5))
        v = (mpmath.exp(x) - p) / x ** 5
    return +v


def fmp(q):
    """Fraction -> mpf"""
    return mpf(q.numerator) / mpf(q.denominator)


def antiderivative_coeffs(P):
    """exact q with (t q(ln t))' = p(ln t): q_n = p_n, q_i = p_i - (i+1) q_{i+1}"""
    n = len(P) - 1
    Q = [Fraction(0)] * (n + 1)
    Q[n] = P[n]
    for i in range(n - 1, -1, -1):
        Q[i] = P[i] - (i + 1) * Q[i + 1]
    return Q


def magnitude_coeffs(P):
    n = len(P) - 1
    M = [Fraction(0)] * (n + 1)
    M[n] = abs(P[n])
    for i in range(n - 1, -1, -1):
        M[i] = abs(P[i]) + (i + 1) * M[i + 1]
    return M


def G(Q, t, L=None):
    """t * Q(ln t) at working precision"""
    t = mpf(t)
    if L is None:
        L = mpmath.log(t)
    s = mpf(0)
    for q in reversed(Q):
        s = s * L + fmp(q)
    return t * s


def quartic_mags(P):
    """magnitudes of the numbers of the quartic representation (k, a, b, c, d, u) built from p0..p4"""
    p = [abs(x) for x in P]
    m1 = p[0]
    m2 = (m1 + p[1]) / 2
    m3 = (m2 + p[2]) / 3
    m4 = (m3 + p[3]) / 4
    mu = 24 * (m4 + p[4])
    return [m1, m2, m3, m4, mu]


def S_generic(M, t, L):
    aL = abs(L)
    s = mpf(0)
    for m in reversed(M):
        s = s * aL + fmp(m)
    return mpf(t) * s


def dS_generic(M, t, L):
    """t * sum i M_i |L|^(i-1): sensitivity of t Q(L) to an error in L"""
    aL = abs(L)
    s = mpf(0)
    for i in range(len(M) - 1, 0, -1):
        s = s * aL + i * fmp(M[i])
    return mpf(t) * s


def S_quartic(Mq, t, L):
    x = -L
    ax = abs(x)
    s = sum(fmp(Mq[j]) * ax ** (j + 1) for j in range(4))
    tail = abs(x ** 5 * R(x))
    return mpf(t) * (s + fmp(Mq[4]) * tail)


def dS_quartic(Mq, t, L):
    x = -L
    ax = abs(x)
    s = sum((j + 1) * fmp(Mq[j]) * ax ** j for j in range(4))
    tail = abs(x ** 5 * R(x)) + ax ** 4 / 24
    return mpf(t) * (s + fmp(Mq[4]) * tail)
