"""Per-property configuration of the runtime monitors (kind, oracle, evidence rule, assumptions)."""

ONLINE = "online"
OFFLINE = "offline"

PROPS = {
    "C02": dict(
        kind=ONLINE,
        rule=("cases = distinct piecewise functions (piece type, bit patterns of all ends and coefficients); each is "
              "probed through Piecewise::evaluate at every critical query of its own breakpoints (each end, one ulp "
              "either side, midpoints, beyond both extremes, +-MAX, +-inf, +-0) and compared with the independent "
              "reference model sel(); 'evaluations' counts point checks. A complete small scope (all non-decreasing "
              "end vectors over a 6-value alphabet, <=5 segments) is always included."),
        assumptions=["tag pieces return a 64-bit mix of (segment id, argument bits): two different (id, x) pairs "
                     "returning the same value (probability 2^-63 per comparison) would hide a wrong selection"],
    ),
}
