"""Per-property configuration of the runtime monitors (kind, oracle, evidence rule, assumptions)."""

ONLINE = "online"
OFFLINE = "offline"

PROPS = {
    "C02": dict(
        technique='runtime monitoring: online reference-model monitor with tag pieces (returned value reveals the selected segment)',
        level_text='Exploration by runtime monitoring. Piecewise::evaluate is executed on generated well-formed functions (1-10^4 segments, duplicates, zero-width, one-ulp-wide, +-0, +-inf ends) at every critical query of each function, plus a complete small scope; each answer is compared bit for bit with an independent 5-line model of half-open selection, for tag pieces and for all 28 real piece types.',
        level_note='Trusted: the reference model sel(); tag values are a 64-bit mix of (segment id, argument bits).',
       
        kind=ONLINE,
        rule=("cases = distinct piecewise functions (piece type, bit patterns of all ends and coefficients); each is "
              "probed through Piecewise::evaluate at every critical query of its own breakpoints (each end, one ulp "
              "either side, midpoints, beyond both extremes, +-MAX, +-inf, +-0) and compared with the independent "
              "reference model sel(); 'evaluations' counts point checks. A complete small scope (all non-decreasing "
              "end vectors over a 6-value alphabet, <=5 segments) is always included."),
        assumptions=["tag pieces return a 64-bit mix of (segment id, argument bits): two different (id, x) pairs "
                     "returning the same value (probability 2^-63 per comparison) would hide a wrong selection"],
    ),
    "C03": dict(
        technique='runtime monitoring: online trace monitor over hostile query histories + state-hash-guided exploration of evaluator states to a fixpoint',
        level_text="Exploration by runtime monitoring. Every answer of a fresh PiecewiseEvaluator along generated histories (9 movement policies, up to 1e5 queries in thorough) is compared with the reference model and with direct evaluation; in addition the evaluator's reachable (cursor, last argument) states are explored breadth-first through hook H1 (hashing only) applying every critical query in every state, which covers every history over that alphabet for the explored functions.",
        level_note='Trusted: H1 exposes the whole mutable state (if a change adds state, the fixpoint argument no longer holds; the random histories remain); reference model sel().',
       
        # two builds: with the library's observation hooks (state / branch labels available) and without them, i.e.
        # exactly the configuration a user compiles; half of the workload each, different seeds
        configs=[dict(profile="verif", features="hooks", label="hooks-", scale_mul=0.5),
                 dict(profile="verif", features=None, label="", scale_mul=0.5, seed_add=500009)],
        kind=ONLINE,
        rule=("cases = distinct (function, query history) pairs plus distinct explored functions; workload A runs "
              "generated hostile histories (9 movement policies, 1..300 queries, 1e5 in thorough) through a fresh "
              "PiecewiseEvaluator and checks every answer against the reference model and Piecewise::evaluate; "
              "workload B explores the evaluator's reachable (cursor, last argument) states breadth-first to a "
              "fixpoint (hook H1, hashing only) applying every critical query in every state; 'evaluations' counts "
              "checked evaluator answers"),
        assumptions=["hook H1 exposes the evaluator's complete mutable state (cursor offset, last argument); if a "
                     "change adds state the fixpoint no longer covers all histories, workload A still applies",
                     "tag-value collisions (2^-63 per comparison)"],
    ),
    "C12": dict(
        technique='runtime monitoring: online trace monitor of evaluate_v (values, running-maximum rule, laziness by counting pulled inputs)',
        level_text='Exploration by runtime monitoring: every output of evaluate_v on generated sequences (sorted and unsorted, repeats, breakpoint hits, +-inf; up to 1e5 long in thorough) plus all ordered pairs of critical queries for small functions, compared with the reference model for the running maximum and with pointwise evaluation while non-decreasing; inputs pulled == outputs produced after every step.',
        level_note='Trusted: reference model sel(); tag values.',
       
        kind=ONLINE,
        rule=("cases = distinct (function, argument sequence) pairs plus functions whose ordered pairs of critical "
              "queries were all explored; every output of evaluate_v is compared (bits) with the piece selected by "
              "the reference model for the running maximum, and with Piecewise::evaluate while the sequence is "
              "non-decreasing; the number of inputs pulled is compared with the number of outputs after every step"),
        assumptions=["tag-value collisions (2^-63 per comparison)"],
    ),
    "C16": dict(
        technique="runtime monitoring: online monitors for NaN/inf histories (trace + exploration to a fixpoint) and a panic sweep over all other drivers' workloads",
        level_text="Exploration by runtime monitoring: C03's histories and state exploration with NaN/+-inf in the alphabet (every non-NaN answer after a NaN compared bit for bit with direct evaluation), direct evaluation and evaluate_v on every f64 class, and the workloads of all 18 other drivers re-run with only panics transferred; documented rejections exercised and recorded. This check found defect D2 on the pinned tree.",
        level_note="Trusted: 'well-formed finite input' is what the other drivers' generators produce; profile with debug assertions and overflow checks on (superset of release panics).",
       
        # two builds: with the library's observation hooks (state / branch labels available) and without them, i.e.
        # exactly the configuration a user compiles; half of the workload each, different seeds
        configs=[dict(profile="verif", features="hooks", label="hooks-", scale_mul=0.5),
                 dict(profile="verif", features=None, label="", scale_mul=0.5, seed_add=500009)],
        kind=ONLINE, sweep=True,
        rule=("cases = distinct (function, history containing NaN/inf) pairs, explored functions with NaN in the "
              "alphabet, and (function, argument list) pairs for direct evaluation / evaluate_v; plus the panic "
              "sweep re-running the other drivers' workloads (sweep_ops) with only panics transferred; every "
              "non-NaN evaluator answer after a NaN is compared bit for bit with the reference model and "
              "Piecewise::evaluate"),
        assumptions=["'well-formed finite input' is what the generators of the other drivers produce (finite knots, "
                     "strictly increasing abscissae for the spline, non-empty non-NaN non-decreasing breakpoints)"],
    ),
    "C13": dict(
        technique='runtime monitoring: online monitor with symbolic pair pieces (which left piece met which right piece) and real IntOfLogPoly4 pieces',
        level_text='Exploration by runtime monitoring of &f+&g and &f-&g on generated pairs of breakpoint lists (identical, subset, neighbours/duplicates, disjoint, nested, interleaved, single piece, up to 3000 pieces) and a complete small scope: structure of the result and, at every critical query of either operand, the combined pieces against the reference model; real pieces bit-equal to the IEEE sum/difference of the selected pieces (operands partly correlated).',
        level_note='Trusted: reference model sel(); a logical step budget (len f + len g + 4 piece combinations) turns a non-terminating merge into an observed violation instead of a hang.',
       
        kind=ONLINE,
        rule=("cases = distinct ordered pairs of breakpoint lists (symbolic pair pieces) and distinct pairs of "
              "Piecewise<IntOfLogPoly4> (all numbers); for each, both &f+&g and &f-&g are executed and, at every "
              "critical query of either operand, the piece selected in the result is compared with the pieces "
              "selected in f and g by the reference model (symbolic ids; bit-equality of the six numbers with the "
              "IEEE sum/difference for real pieces); structure (non-empty, ends non-decreasing and drawn from the "
              "operands, <= len f + len g - 1 pieces) checked on every result; complete small scope of all pairs of "
              "<=3-end lists over a 4-value alphabet always included"),
        assumptions=["value-level comparison (f op g)(x) vs f(x) op g(x) uses a loose 1e-9 relative bound; the "
                     "deciding oracle is structural + bit-exact"],
    ),
    "C14": dict(
        technique='runtime monitoring: online bit-exact monitor over a table naming every operator impl',
        level_text='Exploration by runtime monitoring: each of the 125 operator impls (Mul, MulAssign, Neg, Add, Sub, Translate on Poly0-8, PolyN, Log<.>, IntOfLog<.>, IntOfLogPoly4) is executed on generated operands (zeros, -0, subnormal, huge, correlated pairs) and every returned number compared by bits with the single IEEE operation; then compared at value level with the pointwise operation.',
        level_note='Trusted: the impl table was read off the source (a removed impl breaks the harness build => inconclusive; an added impl is not covered until listed).',
       
        kind=ONLINE,
        rule=("cases = distinct (operator impl, operand numbers, scalar) triples; each of the 125 operator impls "
              "named in harness/src/c14.rs is executed and every returned number compared by bits with the single "
              "IEEE operation on the corresponding input numbers; then the result is evaluated at a generated "
              "argument and compared with s*f(x), -f(x), f1(x)+-f2(x), f(x)+c within K*2^-53*sum|terms|"),
        assumptions=["value-level bound K = 8(n+3) (polynomials), 16(n+3) (Log), 32(n+3) (IntOfLog), 1e5 (quartic "
                     "log-integral: C10's 1e-12*S accuracy); inputs whose terms leave [1e-250,1e250] are skipped "
                     "and counted"],
    ),
    "C15": dict(
        technique='runtime monitoring: online monitor with operation-recording pieces and bit-exact comparison on real pieces',
        level_text='Exploration by runtime monitoring of *, *=, (&mut Segment) *=, neg, translate on Segment and Piecewise (1-5000 pieces): count, order and every breakpoint bit preserved, exactly the one operation with the given scalar applied to every piece; real piece types bit-equal to the operation applied to each piece alone, value level on both sides of every breakpoint.',
        level_note='Trusted: recorder pieces accept Mul or MulAssign for scaling and Neg or *(-1) for negation (both are bit-identical on real pieces).',
       
        kind=ONLINE,
        rule=("cases = distinct (function, scalar, translation) triples; operation-recording pieces show that "
              "*, *= (value and &mut Segment), neg and translate on Segment/Piecewise apply exactly the one "
              "operation with the given scalar to every piece and keep count, order and every breakpoint bit; real "
              "piece types (Poly0-8, Log<.>, IntOfLog<.>, IntOfLogPoly4) are compared bit for bit with the operation "
              "applied to each piece alone, and (polynomials) at value level on both sides of every breakpoint"),
    ),
    "C17": dict(
        technique="runtime monitoring: online monitor comparing approx relations with the number-by-number conjunction of f64's own relations",
        level_text='Exploration by runtime monitoring of abs_diff_eq / relative_eq on every type with the approx traits: every field position perturbed in turn by seven amounts around the tolerance, all tolerance pairs, Segment (end included), Piecewise (random positions, different lengths), PolyN; symmetry, ==-implication and default tolerances checked.',
        level_note="Trusted: approx's f64 implementations define the single-number relation.",
       
        kind=ONLINE,
        rule=("cases = distinct (type, base value, tolerances) triples; for each, every field position in turn is "
              "perturbed by {0, tol/2, just inside, 2 tol, far, huge, 1 ulp} and abs_diff_eq / relative_eq (both "
              "argument orders) are compared with the conjunction of approx's own f64 relations over the flattened "
              "numbers; Segment<T> (end included), Piecewise<T> (random positions, different lengths) and PolyN too"),
        assumptions=["approx's f64::abs_diff_eq / relative_eq are the reference for a single pair of numbers"],
    ),
    "C18": dict(
        technique='runtime monitoring: online round-trip monitor over serde_json, serde_cbor and borsh in two feature configurations',
        level_text="Exploration by runtime monitoring: every serializable type (Knot, Poly0-8, Log<.>, IntOfLog<.>, IntOfLogPoly4, Segment<.>, Piecewise<.> with 0-100003 segments) with all non-NaN contents (subnormals, -0.0, MAX, +-inf in binary formats) is round-tripped and compared by bits and by ==; built without and with the library's borsh feature.",
        level_note='Trusted: serde_json with float_roundtrip, serde_cbor, borsh as transport; a field that is skipped or reordered shows as a changed number.',
       
        kind=ONLINE,
        configs=[dict(profile="verif", features=None, label="noborsh-"), dict(profile="verif", features="borsh", label="borsh-")],
        rule=("cases = distinct serialized values (type + bit patterns); each is round-tripped through serde_json "
              "(finite contents), serde_cbor (all non-NaN contents) and, in the configuration built with the "
              "library's borsh feature, borsh; the flattened numbers before/after are compared by bits and the "
              "values by ==; the serde lanes run in both feature configurations"),
        assumptions=["serde_json is built with float_roundtrip (otherwise the text format itself is not f64-faithful)"],
    ),
    "C19": dict(
        technique='runtime monitoring: online monitor of Arbitrary on random and wire-format-structured byte strings',
        level_text='Exploration by runtime monitoring: Piecewise<T>::arbitrary on ~2e5 (quick) / ~1e7 (thorough) byte strings (random, and structured to decode to empty lists, NaN/inf/subnormal/zero/descending/duplicate/extreme ends, 1000 ends, exhaustion inside ends or pieces) for tag pieces, Poly0-8 and PolyN: never panics, Ok values well-formed, three evaluation paths agree at the critical queries.',
        level_note="Trusted: arbitrary 1.4.2's wire format for Vec<f64> (structured inputs are checked to decode as intended only through the result they produce).",
       
        kind=ONLINE,
        rule=("cases = distinct byte strings (random and structured in arbitrary-1.4's wire format: empty list, "
              "NaN/inf/subnormal/zero ends, descending, duplicate, extreme, 1000 ends, exhausted inside ends or "
              "pieces); each is decoded as Piecewise<T> for T in {unique-id tag piece, Poly0-8, PolyN}; Ok values "
              "are checked for >=1 segment, normal non-decreasing ends, and the three evaluation paths are compared "
              "at the critical queries (forward and backward through the evaluator)"),
    ),
    "C01": dict(
        technique='runtime monitoring: recorded evaluation events decided offline by an exact-rational / 400-bit reference oracle',
        level_text="Exploration by runtime monitoring. The real evaluate() of every polynomial form is executed on ~3e5 (quick) / ~4e7 (thorough) generated inputs per run covering the classes the property names (one-hot lanes, sign patterns, cancellation, |x| from 1e-12 to 1e12, v within ulps of 1, tiny, huge); every returned value is compared with the exact mathematical value under the property's own bound (equality in the exactly-representable class). Held on what was observed; inputs not run are not covered.",
        level_note="Trusted: Python Fraction / mpmath (400 bits, guarded by an 800-bit recomputation of every 97th Log event), IEEE-754 host arithmetic, glibc ln within 1 ulp (the property's own allowance), the generators' classification of the domain.",
       
        kind=OFFLINE, oracle="c01.py",
        rule=("cases = distinct (form, coefficient bits, argument bits) evaluations of Poly0-8, PolyN (length 0-12) "
              "and Log<Poly0-8>; the driver records the returned bits, the oracle recomputes sum c_i x^i in exact "
              "rational arithmetic (ln v at 400 bits for Log forms) and demands equality when every partial term of "
              "any scheme is exactly representable, else |r-S| <= 4(n+2) 2^-53 sum|c_i||x|^i (+ propagated ulp of ln); "
              "inputs with a partial term or power outside [2^-960, 2^1000] are skipped and counted"),
        assumptions=["f64::ln of the platform is within one ulp (the property's own allowance)",
                     "mpmath at 400 bits is exact enough; every 97th Log event is recomputed at 800 bits (guard)"],
    ),
    "C07": dict(
        technique='runtime monitoring: recorded integration events decided offline by an exact-rational oracle; Segment structure online',
        level_text='Exploration by runtime monitoring of indefinite()/integral(knot) on Poly0-7 (~2e5 quick / ~5e6 thorough events): coefficients, value through the knot (exact evaluation of the returned polynomial), F(b)-F(a) against the exact integral, derivative of the result within one ulp.',
        level_note='Trusted: Fraction arithmetic; bounds (4(n+3)+2)u and (4(n+3)+4)u times term magnitudes.',
       
        kind=OFFLINE, oracle="c07.py",
        rule=("cases = distinct (degree 0-7, coefficient bits, knot, a, b) tuples; the driver records indefinite(), "
              "integral(knot), its derivative and evaluations at knot.x, a, b; the oracle checks in exact rational "
              "arithmetic: zero constant term, coefficients c_i/(i+1) within 3u, the returned F evaluated exactly at "
              "knot.x equals knot.y within (4(n+3)+2)u*(sum|F_i||x|^i+|y|), F(b)-F(a) (library evaluate) equals the exact "
              "integral within (4(n+3)+4)u*(A_F(a)+A_F(b)), derivative of the result within one ulp of p; Segment<T> "
              "integral / indefinite are recorded as events of their own and judged by the same oracle (breakpoint "
              "bits checked online)"),
    ),
    "C08": dict(
        technique='runtime monitoring: recorded derivative events decided offline exactly; piece-by-piece structure decided online with trace probes and real pieces',
        level_text="Exploration by runtime monitoring of derivative() on Poly0-8 (exact product for factors 1,2,4,8, one ulp otherwise, value vs exact p'(x)) and of Segment/Piecewise::derivative (count, order, every breakpoint bit, piece == piece.derivative()).",
        level_note='Trusted: Fraction arithmetic; trace probes record which piece was differentiated.',
       
        kind=OFFLINE, oracle="c08.py",
        rule=("cases = distinct (degree 0-8, coefficient bits, x) tuples for the coefficient/value oracle (exact: "
              "D_i == (i+1)c_(i+1) for factors 1,2,4,8, within one ulp otherwise; derivative().evaluate(x) vs exact "
              "p'(x) within (4(n+1)+2)u*sum|(i+1)c_(i+1)||x|^i) plus distinct piecewise functions for the online "
              "structural monitor (trace probes and real pieces: count, order, end bits, piece == piece.derivative())"),
    ),
    "C09": dict(
        technique='runtime monitoring: recorded log-integral events decided offline against the exact antiderivative t*Q(ln t) at 400 bits',
        level_text='Exploration by runtime monitoring of integral(knot)/indefinite() on Log<Poly0-8> with knots and evaluation points deliberately away from 1 (where the unit tests are blind): through-knot value, F(b)-F(a) against the true integral, recurrence coefficients. This check found defect D1 on the pinned tree.',
        level_note="Trusted: mpmath at 400 bits (guard at 800), glibc ln within 1 ulp, K=16(n+3), for degree 4 additionally the quartic form's stated accuracy 1e-12 S.",
       
        kind=OFFLINE, oracle="c09.py",
        rule=("cases = distinct (degree 0-8, coefficient bits, knot, a, b) tuples with knot.x, a, b > 0 deliberately "
              "away from 1; the oracle builds the exact antiderivative t*Q(ln t) (rational recurrence, ln at 400 bits) "
              "and checks F(knot.x)=knot.y, F(b)-F(a) and the same for indefinite() within K*u*(S(a)+S(b)+2(S(kx)+|ky|)) "
              "+ propagated ulp of ln, K=16(n+3), S from absolute-value recurrences; for degree 4 the bound includes "
              "1e-12*S (the quartic form's own stated accuracy, C10); non-quartic coefficients also checked against "
              "the recurrence"),
        assumptions=["f64::ln within one ulp", "400-bit reference; every 101st event recomputed at 800 bits"],
    ),
    "C10": dict(
        technique='runtime monitoring: recorded evaluations of the quartic log-integral form decided offline at 400 bits; executed branch observed through hook H2',
        level_text='Exploration by runtime monitoring of IntOfLogPoly4::evaluate: every float within 8 ulps of v=1 and of both switch points for a corpus of forms, +-3000 ulps randomly, dense sweep of x in [-40,40], 1e-300..1e300, with one-hot, benchmark-magnitude, integral-produced and random forms; error must be <= 1e-12 * sum|terms| and exactly k at v=1.',
        level_note='Trusted: mpmath series/closed form at 400 bits (guard at 900 bits); the hook only labels the branch, it is not the oracle.',
       
        # two builds: with the library's observation hooks (state / branch labels available) and without them, i.e.
        # exactly the configuration a user compiles; half of the workload each, different seeds
        configs=[dict(profile="verif", features="hooks", label="hooks-", scale_mul=0.5),
                 dict(profile="verif", features=None, label="", scale_mul=0.5, seed_add=500009)],
        kind=OFFLINE, oracle="c10.py",
        rule=("cases = distinct ((k,c1..c4,u) bits, v bits) evaluations of IntOfLogPoly4; v covers +-3000 ulps of 1 and "
              "of both series/closed-form switch points (located by bisection on the computed -ln v), dense sweep of "
              "x in [-40,40], 1e-300..1e300; the oracle evaluates k+v*sum c_j x^j+u*v*x^5*R(x) at 400 bits (series for "
              "|x|<2) and demands |r-truth| <= 1e-12*sum|terms| and r==k at v=1; the executed branch is read from hook H2"),
        assumptions=["400-bit reference; every 211th event recomputed at 900 bits"],
    ),
    "C11": dict(
        technique='runtime monitoring: online trace-probe monitor for structure and iterator equivalence + recorded integrals decided offline at 400 bits',
        level_text='Exploration by runtime monitoring of Piecewise::integral / indefinite / integral_iter(_ref) over Poly0-7 and Log<Poly0-8> pieces: breakpoints preserved, first piece through k0, continuity at every interior breakpoint, every piece an antiderivative, library evaluate(t) against k0.y + exact piecewise integral with an accumulated bound, by-value vs by-reference iterators bit for bit.',
        level_note='Trusted: mpmath at 400 bits; K=16(n+3) per library evaluation accumulated over crossed pieces (+1e-12 S for quartic log pieces).',
       
        kind=OFFLINE, oracle="c11.py",
        rule=("cases = distinct (piece type, all piece numbers, knot) piecewise functions over Poly0-7 and Log<Poly0-8> "
              "(1-40 pieces, duplicate breakpoints, knot inside / outside the first piece) for the value oracle, plus "
              "distinct breakpoint lists for the online trace-probe monitor; oracle (400 bits): breakpoints preserved, "
              "first piece through k0, adjacent pieces agree at every interior breakpoint (exact evaluation of the "
              "returned numbers), every piece an antiderivative (coefficients and values), and the library's "
              "evaluate(t) of integral/indefinite at up to 24 critical queries equals k0.y + the exact piecewise "
              "integral within the accumulated bound; by-value and by-reference iterators compared bit for bit"),
        assumptions=["f64::ln within one ulp", "evaluation bound K*u*sum|terms| with K=16(n+3) per library evaluation, "
                     "accumulated over the pieces crossed; quartic log pieces add 1e-12*sum|terms| (C10)"],
    ),
    "C04": dict(
        technique='runtime monitoring: recorded spline constructions decided offline by an exact-rational Kruger oracle',
        level_text='Exploration by runtime monitoring. constrained_spline is executed on generated knot families (monotone, oscillating, plateaux, collinear(+noise), geometric spacing, offsets to 1e9, scales 1e+-25, 3-60 knots); each returned cubic is evaluated exactly and compared with the knot ordinates and with the exact Kruger slopes under 64 u * interval-wide term magnitudes.',
        level_note='Trusted: Python Fraction arithmetic; tolerance constant K=64 (first-order analysis ~25 u, largest observed 0.03 of the tolerance).',
       
        kind=OFFLINE, oracle="c04.py",
        rule=("cases = distinct knot sequences (3-60 knots, strictly increasing x; families: integer grid, uneven, "
              "geometric spacing, offsets to 1e9, scales 1e+-25; monotone, oscillating, plateaux, ramps, collinear, "
              "collinear+noise, random ordinates); the oracle computes the Kruger slopes in exact rational arithmetic "
              "and checks per returned cubic (evaluated exactly): end == right abscissa (bits), both knot ordinates "
              "within 64u*T and both end derivatives within 64u*TD (T, TD = interval-wide term magnitudes)"),
        assumptions=["knot sets whose intermediate magnitudes leave [2^-960, 2^1000] (including products of adjacent "
                     "secant slopes) are outside the domain and skipped (counted)"],
    ),
    "C05": dict(
        technique='runtime monitoring: recorded spline constructions decided offline analytically (critical points of each cubic at 600 bits)',
        level_text='Exploration by runtime monitoring. For every returned cubic the critical points are computed at 600 bits, so overshoot and monotonicity are decided for every real x of the interval rather than sampled; zero slope at data extrema / plateau edges, straight line for collinear knots and equality of the Hermite data with the exact Kruger spline are checked on the same event log.',
        level_note='Trusted: mpmath root finding at 600 bits; Fraction arithmetic; K=64.',
       
        kind=OFFLINE, oracle="c05.py",
        rule=("same event log as C04 with its own seed lane; per returned cubic the critical points (roots of P') are "
              "located at 600 bits, so overshoot beyond the knot ordinates and backtracking against the data direction "
              "are decided for every real x of the interval, not sampled; slope at knots where adjacent secants differ "
              "in sign or vanish must be 0 within 64u*TD; exactly collinear knots must give the line; the Hermite data "
              "are compared with the exact Kruger spline (C04's check) so the whole curve coincides with it"),
    ),
    "C06": dict(
        technique='runtime monitoring: recorded linear() constructions and evaluations decided offline by an exact-rational oracle',
        level_text="Exploration by runtime monitoring. linear() is executed on generated knot slices (2-50 knots; increasing, repeated, out-of-order runs, gaps of 0 / EPSILON -+ 1 ulp, offsets to 1e15, scales 1e+-20); breakpoints, interpolation of the forced knots, constancy of narrow segments and the library's evaluate at / between / outside the knots are compared with exact rational arithmetic.",
        level_note='Trusted: Fraction arithmetic; K=16; segments whose exact and computed width classify differently against EPSILON are skipped.',
       
        kind=OFFLINE, oracle="c06.py",
        rule=("cases = distinct knot slices (2-50 knots: increasing, repeated, out-of-order runs, gaps of 0 / EPSILON "
              "-+ 1ulp, large offsets, scales) ; exact rational oracle: piece count, end_i == running maximum, segment "
              "through its forced left knot, through the right knot when >= EPSILON wide else constant (b==0, a==y_i), "
              "and for strictly increasing input the library's evaluate at every knot, between knots and outside vs "
              "the exact straight line through the bracketing knots, all within 16u*sum|terms|"),
        assumptions=["segments whose exact width and computed width classify differently against EPSILON are skipped (counted)"],
    ),
}
