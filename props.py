"""Per-property configuration of the runtime monitors (kind, oracle, evidence rule, assumptions)."""

ONLINE = "online"
OFFLINE = "offline"

PROPS = {
    "C02": dict(
        kind=ONLINE,
        rule=("cases = distinct piecewise functions (piece type, bit patterns of all ends and coefficients); each is "
              "probed through Piecewise::evaluate at every critical query of its own breakpoints (each end, one ulp "
              "either side, midpoints, beyond both extremes, +-MAX, +-inf, +-0) and compared with the independent "
              "reference model sel(); 'evaluations' counts point checks. A complete small scope (all non-decreasing "
              "end vectors over a 6-value alphabet, <=5 segments) is always included."),
        assumptions=["tag pieces return a 64-bit mix of (segment id, argument bits): two different (id, x) pairs "
                     "returning the same value (probability 2^-63 per comparison) would hide a wrong selection"],
    ),
    "C03": dict(
        kind=ONLINE,
        rule=("cases = distinct (function, query history) pairs plus distinct explored functions; workload A runs "
              "generated hostile histories (9 movement policies, 1..300 queries, 1e5 in thorough) through a fresh "
              "PiecewiseEvaluator and checks every answer against the reference model and Piecewise::evaluate; "
              "workload B explores the evaluator's reachable (cursor, last argument) states breadth-first to a "
              "fixpoint (hook H1, hashing only) applying every critical query in every state; 'evaluations' counts "
              "checked evaluator answers"),
        assumptions=["hook H1 exposes the evaluator's complete mutable state (cursor offset, last argument); if a "
                     "change adds state the fixpoint no longer covers all histories, workload A still applies",
                     "tag-value collisions (2^-63 per comparison)"],
    ),
    "C12": dict(
        kind=ONLINE,
        rule=("cases = distinct (function, argument sequence) pairs plus functions whose ordered pairs of critical "
              "queries were all explored; every output of evaluate_v is compared (bits) with the piece selected by "
              "the reference model for the running maximum, and with Piecewise::evaluate while the sequence is "
              "non-decreasing; the number of inputs pulled is compared with the number of outputs after every step"),
        assumptions=["tag-value collisions (2^-63 per comparison)"],
    ),
    "C16": dict(
        kind=ONLINE,
        rule=("cases = distinct (function, history containing NaN/inf) pairs, explored functions with NaN in the "
              "alphabet, and (function, argument list) pairs for direct evaluation / evaluate_v; plus the panic "
              "sweep re-running the other drivers' workloads (sweep_ops) with only panics transferred; every "
              "non-NaN evaluator answer after a NaN is compared bit for bit with the reference model and "
              "Piecewise::evaluate"),
        assumptions=["'well-formed finite input' is what the generators of the other drivers produce (finite knots, "
                     "strictly increasing abscissae for the spline, non-empty non-NaN non-decreasing breakpoints)"],
    ),
}
