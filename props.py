"""Per-property configuration of the runtime monitors (kind, oracle, evidence rule, assumptions)."""

ONLINE = "online"
OFFLINE = "offline"

PROPS = {
    "C02": dict(
        kind=ONLINE,
        rule=("cases = distinct piecewise functions (piece type, bit patterns of all ends and coefficients); each is "
              "probed through Piecewise::evaluate at every critical query of its own breakpoints (each end, one ulp "
              "either side, midpoints, beyond both extremes, +-MAX, +-inf, +-0) and compared with the independent "
              "reference model sel(); 'evaluations' counts point checks. A complete small scope (all non-decreasing "
              "end vectors over a 6-value alphabet, <=5 segments) is always included."),
        assumptions=["tag pieces return a 64-bit mix of (segment id, argument bits): two different (id, x) pairs "
                     "returning the same value (probability 2^-63 per comparison) would hide a wrong selection"],
    ),
    "C03": dict(
        kind=ONLINE,
        rule=("cases = distinct (function, query history) pairs plus distinct explored functions; workload A runs "
              "generated hostile histories (9 movement policies, 1..300 queries, 1e5 in thorough) through a fresh "
              "PiecewiseEvaluator and checks every answer against the reference model and Piecewise::evaluate; "
              "workload B explores the evaluator's reachable (cursor, last argument) states breadth-first to a "
              "fixpoint (hook H1, hashing only) applying every critical query in every state; 'evaluations' counts "
              "checked evaluator answers"),
        assumptions=["hook H1 exposes the evaluator's complete mutable state (cursor offset, last argument); if a "
                     "change adds state the fixpoint no longer covers all histories, workload A still applies",
                     "tag-value collisions (2^-63 per comparison)"],
    ),
    "C12": dict(
        kind=ONLINE,
        rule=("cases = distinct (function, argument sequence) pairs plus functions whose ordered pairs of critical "
              "queries were all explored; every output of evaluate_v is compared (bits) with the piece selected by "
              "the reference model for the running maximum, and with Piecewise::evaluate while the sequence is "
              "non-decreasing; the number of inputs pulled is compared with the number of outputs after every step"),
        assumptions=["tag-value collisions (2^-63 per comparison)"],
    ),
    "C16": dict(
        kind=ONLINE, sweep=True,
        rule=("cases = distinct (function, history containing NaN/inf) pairs, explored functions with NaN in the "
              "alphabet, and (function, argument list) pairs for direct evaluation / evaluate_v; plus the panic "
              "sweep re-running the other drivers' workloads (sweep_ops) with only panics transferred; every "
              "non-NaN evaluator answer after a NaN is compared bit for bit with the reference model and "
              "Piecewise::evaluate"),
        assumptions=["'well-formed finite input' is what the generators of the other drivers produce (finite knots, "
                     "strictly increasing abscissae for the spline, non-empty non-NaN non-decreasing breakpoints)"],
    ),
    "C13": dict(
        kind=ONLINE,
        rule=("cases = distinct ordered pairs of breakpoint lists (symbolic pair pieces) and distinct pairs of "
              "Piecewise<IntOfLogPoly4> (all numbers); for each, both &f+&g and &f-&g are executed and, at every "
              "critical query of either operand, the piece selected in the result is compared with the pieces "
              "selected in f and g by the reference model (symbolic ids; bit-equality of the six numbers with the "
              "IEEE sum/difference for real pieces); structure (non-empty, ends non-decreasing and drawn from the "
              "operands, <= len f + len g - 1 pieces) checked on every result; complete small scope of all pairs of "
              "<=3-end lists over a 4-value alphabet always included"),
        assumptions=["value-level comparison (f op g)(x) vs f(x) op g(x) uses a loose 1e-9 relative bound; the "
                     "deciding oracle is structural + bit-exact"],
    ),
    "C14": dict(
        kind=ONLINE,
        rule=("cases = distinct (operator impl, operand numbers, scalar) triples; each of the 125 operator impls "
              "named in harness/src/c14.rs is executed and every returned number compared by bits with the single "
              "IEEE operation on the corresponding input numbers; then the result is evaluated at a generated "
              "argument and compared with s*f(x), -f(x), f1(x)+-f2(x), f(x)+c within K*2^-53*sum|terms|"),
        assumptions=["value-level bound K = 8(n+3) (polynomials), 16(n+3) (Log), 32(n+3) (IntOfLog), 1e5 (quartic "
                     "log-integral: C10's 1e-12*S accuracy); inputs whose terms leave [1e-250,1e250] are skipped "
                     "and counted"],
    ),
    "C15": dict(
        kind=ONLINE,
        rule=("cases = distinct (function, scalar, translation) triples; operation-recording pieces show that "
              "*, *= (value and &mut Segment), neg and translate on Segment/Piecewise apply exactly the one "
              "operation with the given scalar to every piece and keep count, order and every breakpoint bit; real "
              "piece types (Poly0-8, Log<.>, IntOfLog<.>, IntOfLogPoly4) are compared bit for bit with the operation "
              "applied to each piece alone, and (polynomials) at value level on both sides of every breakpoint"),
    ),
    "C17": dict(
        kind=ONLINE,
        rule=("cases = distinct (type, base value, tolerances) triples; for each, every field position in turn is "
              "perturbed by {0, tol/2, just inside, 2 tol, far, huge, 1 ulp} and abs_diff_eq / relative_eq (both "
              "argument orders) are compared with the conjunction of approx's own f64 relations over the flattened "
              "numbers; Segment<T> (end included), Piecewise<T> (random positions, different lengths) and PolyN too"),
        assumptions=["approx's f64::abs_diff_eq / relative_eq are the reference for a single pair of numbers"],
    ),
    "C18": dict(
        kind=ONLINE,
        configs=[dict(profile="verif", features=None, label="noborsh-"), dict(profile="verif", features="borsh", label="borsh-")],
        rule=("cases = distinct serialized values (type + bit patterns); each is round-tripped through serde_json "
              "(finite contents), serde_cbor (all non-NaN contents) and, in the configuration built with the "
              "library's borsh feature, borsh; the flattened numbers before/after are compared by bits and the "
              "values by ==; the serde lanes run in both feature configurations"),
        assumptions=["serde_json is built with float_roundtrip (otherwise the text format itself is not f64-faithful)"],
    ),
    "C19": dict(
        kind=ONLINE,
        rule=("cases = distinct byte strings (random and structured in arbitrary-1.4's wire format: empty list, "
              "NaN/inf/subnormal/zero ends, descending, duplicate, extreme, 1000 ends, exhausted inside ends or "
              "pieces); each is decoded as Piecewise<T> for T in {unique-id tag piece, Poly0-8, PolyN}; Ok values "
              "are checked for >=1 segment, normal non-decreasing ends, and the three evaluation paths are compared "
              "at the critical queries (forward and backward through the evaluator)"),
    ),
    "C01": dict(
        kind=OFFLINE, oracle="c01.py",
        rule=("cases = distinct (form, coefficient bits, argument bits) evaluations of Poly0-8, PolyN (length 0-12) "
              "and Log<Poly0-8>; the driver records the returned bits, the oracle recomputes sum c_i x^i in exact "
              "rational arithmetic (ln v at 400 bits for Log forms) and demands equality when every partial term of "
              "any scheme is exactly representable, else |r-S| <= 4(n+2) 2^-53 sum|c_i||x|^i (+ propagated ulp of ln); "
              "inputs with a partial term or power outside [2^-960, 2^1000] are skipped and counted"),
        assumptions=["f64::ln of the platform is within one ulp (the property's own allowance)",
                     "mpmath at 400 bits is exact enough; every 97th Log event is recomputed at 800 bits (guard)"],
    ),
    "C07": dict(
        kind=OFFLINE, oracle="c07.py",
        rule=("cases = distinct (degree 0-7, coefficient bits, knot, a, b) tuples; the driver records indefinite(), "
              "integral(knot), its derivative and evaluations at knot.x, a, b; the oracle checks in exact rational "
              "arithmetic: zero constant term, coefficients c_i/(i+1) within 3u, the returned F evaluated exactly at "
              "knot.x equals knot.y within (4(n+3)+2)u*(sum|F_i||x|^i+|y|), F(b)-F(a) (library evaluate) equals the exact "
              "integral within (4(n+3)+4)u*(A_F(a)+A_F(b)), derivative of the result within one ulp of p; Segment<T> "
              "integral compared bit for bit with the piece's (online)"),
    ),
    "C08": dict(
        kind=OFFLINE, oracle="c08.py",
        rule=("cases = distinct (degree 0-8, coefficient bits, x) tuples for the coefficient/value oracle (exact: "
              "D_i == (i+1)c_(i+1) for factors 1,2,4,8, within one ulp otherwise; derivative().evaluate(x) vs exact "
              "p'(x) within (4(n+1)+2)u*sum|(i+1)c_(i+1)||x|^i) plus distinct piecewise functions for the online "
              "structural monitor (trace probes and real pieces: count, order, end bits, piece == piece.derivative())"),
    ),
    "C09": dict(
        kind=OFFLINE, oracle="c09.py",
        rule=("cases = distinct (degree 0-8, coefficient bits, knot, a, b) tuples with knot.x, a, b > 0 deliberately "
              "away from 1; the oracle builds the exact antiderivative t*Q(ln t) (rational recurrence, ln at 400 bits) "
              "and checks F(knot.x)=knot.y, F(b)-F(a) and the same for indefinite() within K*u*(S(a)+S(b)+2(S(kx)+|ky|)) "
              "+ propagated ulp of ln, K=16(n+3), S from absolute-value recurrences; for degree 4 the bound includes "
              "1e-12*S (the quartic form's own stated accuracy, C10); non-quartic coefficients also checked against "
              "the recurrence"),
        assumptions=["f64::ln within one ulp", "400-bit reference; every 101st event recomputed at 800 bits"],
    ),
    "C10": dict(
        kind=OFFLINE, oracle="c10.py",
        rule=("cases = distinct ((k,c1..c4,u) bits, v bits) evaluations of IntOfLogPoly4; v covers +-3000 ulps of 1 and "
              "of both series/closed-form switch points (located by bisection on the computed -ln v), dense sweep of "
              "x in [-40,40], 1e-300..1e300; the oracle evaluates k+v*sum c_j x^j+u*v*x^5*R(x) at 400 bits (series for "
              "|x|<2) and demands |r-truth| <= 1e-12*sum|terms| and r==k at v=1; the executed branch is read from hook H2"),
        assumptions=["400-bit reference; every 211th event recomputed at 900 bits"],
    ),
    "C11": dict(
        kind=OFFLINE, oracle="c11.py",
        rule=("cases = distinct (piece type, all piece numbers, knot) piecewise functions over Poly0-7 and Log<Poly0-8> "
              "(1-40 pieces, duplicate breakpoints, knot inside / outside the first piece) for the value oracle, plus "
              "distinct breakpoint lists for the online trace-probe monitor; oracle (400 bits): breakpoints preserved, "
              "first piece through k0, adjacent pieces agree at every interior breakpoint (exact evaluation of the "
              "returned numbers), every piece an antiderivative (coefficients and values), and the library's "
              "evaluate(t) of integral/indefinite at up to 24 critical queries equals k0.y + the exact piecewise "
              "integral within the accumulated bound; by-value and by-reference iterators compared bit for bit"),
        assumptions=["f64::ln within one ulp", "evaluation bound K*u*sum|terms| with K=16(n+3) per library evaluation, "
                     "accumulated over the pieces crossed; quartic log pieces add 1e-12*sum|terms| (C10)"],
    ),
    "C04": dict(
        kind=OFFLINE, oracle="c04.py",
        rule=("cases = distinct knot sequences (3-60 knots, strictly increasing x; families: integer grid, uneven, "
              "geometric spacing, offsets to 1e9, scales 1e+-25; monotone, oscillating, plateaux, ramps, collinear, "
              "collinear+noise, random ordinates); the oracle computes the Kruger slopes in exact rational arithmetic "
              "and checks per returned cubic (evaluated exactly): end == right abscissa (bits), both knot ordinates "
              "within 64u*T and both end derivatives within 64u*TD (T, TD = interval-wide term magnitudes)"),
        assumptions=["knot sets whose intermediate magnitudes leave [2^-960, 2^1000] (including products of adjacent "
                     "secant slopes) are outside the domain and skipped (counted)"],
    ),
    "C05": dict(
        kind=OFFLINE, oracle="c05.py",
        rule=("same event log as C04 with its own seed lane; per returned cubic the critical points (roots of P') are "
              "located at 600 bits, so overshoot beyond the knot ordinates and backtracking against the data direction "
              "are decided for every real x of the interval, not sampled; slope at knots where adjacent secants differ "
              "in sign or vanish must be 0 within 64u*TD; exactly collinear knots must give the line; the Hermite data "
              "are compared with the exact Kruger spline (C04's check) so the whole curve coincides with it"),
    ),
    "C06": dict(
        kind=OFFLINE, oracle="c06.py",
        rule=("cases = distinct knot slices (2-50 knots: increasing, repeated, out-of-order runs, gaps of 0 / EPSILON "
              "-+ 1ulp, large offsets, scales) ; exact rational oracle: piece count, end_i == running maximum, segment "
              "through its forced left knot, through the right knot when >= EPSILON wide else constant (b==0, a==y_i), "
              "and for strictly increasing input the library's evaluate at every knot, between knots and outside vs "
              "the exact straight line through the bracketing knots, all within 16u*sum|terms|"),
        assumptions=["segments whose exact width and computed width classify differently against EPSILON are skipped (counted)"],
    ),
}
