#!/usr/bin/env python3
"""Run every quick check against behaviour-preserving refactorings written by sub-agents (the opposite of
seed_eval.py): each check must stay silent. usage: benign_eval.py <K> --wt <worktree> [--only 1,2]
Results: /verif/benign/<K>-m<k>/{patch.diff, meta.json}."""
import json, os, shutil, subprocess, sys, time

def sh(cmd, cwd=None, env=None, timeout=14400):
    p = subprocess.run(cmd, shell=True, cwd=cwd, env=env, stdout=subprocess.PIPE, stderr=subprocess.STDOUT, text=True, timeout=timeout)
    return p.returncode, p.stdout

def main():
    K = sys.argv[1]
    wt = sys.argv[sys.argv.index("--wt") + 1]
    only = [int(x) for x in sys.argv[sys.argv.index("--only") + 1].split(",")] if "--only" in sys.argv else None
    out = f"/tmp/wt/{K}-out"
    env = dict(os.environ, CARGO_NET_OFFLINE="true")
    ids = [f"C{i:02d}" for i in range(1, 20)]
    for k in range(1, 7):
        diff = os.path.join(out, f"m{k}.diff")
        if not os.path.exists(diff) or (only and k not in only):
            continue
        name = f"{K}-m{k}"
        meta = {"id": name, "kind": "behaviour-preserving refactoring written by an independent sub-agent"}
        try:
            meta["agent_meta"] = json.load(open(os.path.join(out, f"m{k}.json")))
        except Exception as e:
            meta["agent_meta"] = {"error": str(e)}
        sh("git checkout -- . && rm -rf tests", wt)
        rc, o = sh(f"git apply {diff}", wt)
        if rc != 0:
            meta["applies"] = False
            print(name, "does not apply"); save(name, diff, meta); continue
        rc, o1 = sh("cargo test --offline 2>&1 | grep 'test result' | head -1", wt, env)
        rc, o2 = sh("cargo test --offline --features borsh 2>&1 | grep 'test result' | head -1", wt, env)
        meta["suite"] = [o1.strip(), o2.strip()]
        if "94 passed; 0 failed" not in o1:
            print(name, "unit tests fail", o1.strip()); sh("git checkout -- .", wt); save(name, diff, meta); continue
        res = {}
        for c in ids:
            t0 = time.time()
            rc, o = sh(f"python3-vt run.py check {c} --tier quick", "/verif", dict(env, VERIF_REPO=wt))
            sigs = [l.strip()[len("signature:"):].strip() for l in o.splitlines() if l.strip().startswith("signature:")]
            res[c] = {"exit": rc, "signatures": sigs[:6], "wall_s": round(time.time() - t0, 1), "last_line": (o.strip().splitlines() or [""])[-1][:300]}
        sh("git checkout -- .", wt)
        meta["quick_checks"] = res
        meta["alarms"] = [c for c, v in res.items() if v["exit"] == 1]
        meta["inconclusive"] = [c for c, v in res.items() if v["exit"] not in (0, 1)]
        print(name, "alarms:", meta["alarms"], "inconclusive:", meta["inconclusive"])
        save(name, diff, meta)

def save(name, diff, meta):
    d = os.path.join("/verif/benign", name)
    os.makedirs(d, exist_ok=True)
    shutil.copy(diff, os.path.join(d, "patch.diff"))
    json.dump(meta, open(os.path.join(d, "meta.json"), "w"), indent=1)

if __name__ == "__main__":
    main()
