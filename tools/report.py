#!/usr/bin/env python3
"""Regenerate the results tables of DESIGN.md (between the RESULTS markers) from seeded/*/meta.json and
mutants/RESULTS.json."""
import glob, json, os, re
ROOT = os.path.dirname(os.path.dirname(os.path.abspath(__file__)))
ids = [f"C{i:02d}" for i in range(1, 20)]
rows = []
for d in sorted(glob.glob(os.path.join(ROOT, "seeded", "*"))):
    mp = os.path.join(d, "meta.json")
    if not os.path.exists(mp):
        continue
    m = json.load(open(mp))
    rows.append(m)
out = []
out.append("### 9.3 Independent seeded changes (sub-agents given only the property text and a scratch worktree)\n")
out.append("`valid` = patch applies, the 94 unit tests still pass with it, the agent's demonstration fails with it and passes without it "
           "(all re-confirmed by `tools/seed_eval.py`). `caught by` = registered quick checks that print a VIOLATION line on the changed tree "
           "(full cross matrix where available, otherwise the target check only).\n")
out.append("| id | what was changed | what it needs to manifest | valid | target check | also caught by |")
out.append("|---|---|---|---|---|---|")
for m in rows:
    am = m.get("agent_meta", {})
    res = m.get("quick_checks_against_change", {}) or {}
    tgt = res.get(m["property"], {})
    tv = "caught" if tgt.get("violation") else ("inconclusive" if tgt.get("exit") == 2 else "MISSED") if tgt else "n/a"
    others = [c for c in sorted(res) if c != m["property"] and res[c].get("violation")]
    summ = (am.get("summary", "") or "").replace("|", "/").replace("\n", " ")
    needs = (am.get("needs", "") or "").replace("|", "/").replace("\n", " ")
    out.append(f"| {m['id']} | {summ[:230]} | {needs[:230]} | {'yes' if m.get('valid') else 'NO'} | {tv} | {', '.join(others) or '-'} |")
out.append("")
# own catalogue
rp = os.path.join(ROOT, "mutants", "RESULTS.json")
if os.path.exists(rp):
    R = json.load(open(rp))
    out.append("### 9.4 Own mutation catalogue (`mutants/catalogue.py`, run by `mutants/selftest.py` against a scratch worktree)\n")
    out.append("Mutants that the 94 unit tests already reject are kept only as sensitivity controls of the monitors.\n")
    out.append("| mutant | unit tests | checks expected to fire -> result |")
    out.append("|---|---|---|")
    for k, v in R.items():
        if "checks" not in v:
            continue
        cs = ", ".join(f"{c}: {'caught' if x['violation'] else 'MISSED (exit %d)' % x['exit']}" for c, x in v["checks"].items())
        out.append(f"| {k} | {'pass' if v.get('tests_94_pass') else 'fail'} | {cs} |")
    out.append("")
text = "\n".join(out)
p = os.path.join(ROOT, "DESIGN.md")
s = open(p).read()
a, b = "<!-- RESULTS:BEGIN -->", "<!-- RESULTS:END -->"
if a in s:
    s = s[:s.index(a) + len(a)] + "\n" + text + "\n" + s[s.index(b):]
else:
    s += "\n" + a + "\n" + text + "\n" + b + "\n"
open(p, "w").write(s)
print("rows:", len(rows))
