#!/bin/sh
# run every thorough check once (used through `vp run`), print verdict lines and wall time
cd "$(dirname "$0")/.."
python3-vt run.py build | tail -2
for i in ${CHECKS:-01 02 03 04 05 06 07 08 09 10 11 12 13 14 15 16 17 18 19}; do
  s=$(date +%s)
  VERIF_SEED=${VERIF_SEED:-1} python3-vt run.py check C$i --tier thorough 2>&1 | tail -4
  echo "  C$i thorough took $(( $(date +%s) - s )) s"
done
echo THOROUGH DONE
