#!/usr/bin/env python3
"""Rebuild the scratch inputs of tools/seed_eval.py and tools/benign_eval.py (/tmp/wt/<ID>-out/m<k>.{diff,json},
m<k>_demo.rs) from the copies kept under /verif/seeded and /verif/benign, and (re)create scratch worktrees of /repo.
usage: restore_scratch.py [--worktrees mx1,mx2]"""
import glob, json, os, shutil, subprocess, sys
ROOT = os.path.dirname(os.path.dirname(os.path.abspath(__file__)))
for base in ("seeded", "benign"):
    for d in sorted(glob.glob(os.path.join(ROOT, base, "*-m*"))):
        name = os.path.basename(d)
        pid, k = name.rsplit("-m", 1)
        out = f"/tmp/wt/{pid}-out"
        os.makedirs(out, exist_ok=True)
        if os.path.exists(os.path.join(d, "patch.diff")):
            shutil.copy(os.path.join(d, "patch.diff"), os.path.join(out, f"m{k}.diff"))
        for cand in ("demonstration.rs", "demo.rs"):
            if os.path.exists(os.path.join(d, cand)):
                shutil.copy(os.path.join(d, cand), os.path.join(out, f"m{k}_demo.rs"))
        try:
            meta = json.load(open(os.path.join(d, "meta.json")))
            json.dump(meta.get("agent_meta", {}), open(os.path.join(out, f"m{k}.json"), "w"), indent=1)
        except Exception:
            pass
if "--worktrees" in sys.argv:
    for w in sys.argv[sys.argv.index("--worktrees") + 1].split(","):
        p = f"/tmp/wt/{w}"
        if not os.path.exists(p):
            subprocess.run(["git", "-C", "/repo", "worktree", "add", "--detach", p], check=False)
            if os.path.exists("/repo/Cargo.lock"):
                shutil.copy("/repo/Cargo.lock", p)
print("restored under /tmp/wt")
