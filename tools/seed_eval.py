#!/usr/bin/env python3
"""Validate sub-agent changes and run the monitors against them.
usage: seed_eval.py <ID> [--checks C01,C02,...|all]
For every /tmp/wt/<ID>-out/m<k>.diff:
  (a) in the scratch worktree /tmp/wt/<ID>: apply, `cargo test --offline` must give 94 passed;
  (b) with the demo as tests/demo.rs the demo must FAIL; (c) on the unchanged tree it must PASS;
  (d) with the change applied in the worktree, run the quick checks with VERIF_REPO=<worktree> (never touches /repo);
  (e) store /verif/seeded/<ID>-m<k>/{patch.diff,demo.rs,meta.json}."""
import json, os, shutil, subprocess, sys, time

def sh(cmd, cwd=None, env=None, timeout=7200):
    p = subprocess.run(cmd, shell=True, cwd=cwd, env=env, stdout=subprocess.PIPE, stderr=subprocess.STDOUT, text=True, timeout=timeout)
    return p.returncode, p.stdout

def main():
    pid = sys.argv[1]
    checks = [pid]
    if "--checks" in sys.argv:
        c = sys.argv[sys.argv.index("--checks") + 1]
        checks = [f"C{i:02d}" for i in range(1, 20)] if c == "all" else c.split(",")
    wt, out = f"/tmp/wt/{pid}", f"/tmp/wt/{pid}-out"
    if "--wt" in sys.argv:
        wt = sys.argv[sys.argv.index("--wt") + 1]       # evaluate in another scratch worktree (the agents may be using <ID>'s)
    only = None
    if "--only" in sys.argv:
        only = [int(x) for x in sys.argv[sys.argv.index("--only") + 1].split(",")]
    env = dict(os.environ, CARGO_NET_OFFLINE="true")
    for k in range(1, 16):
        diff = os.path.join(out, f"m{k}.diff")
        if not os.path.exists(diff) or (only and k not in only):
            continue
        name = f"{pid}-m{k}"
        meta = {"id": name, "property": pid, "source": "independent sub-agent given only the property text and a scratch worktree"}
        try:
            meta["agent_meta"] = json.load(open(os.path.join(out, f"m{k}.json")))
        except Exception as e:
            meta["agent_meta"] = {"error": str(e)}
        sh("git checkout -- . && rm -rf tests", wt)
        rc, o = sh(f"git apply {diff}", wt)
        if rc != 0:
            meta["valid"] = False; meta["why"] = "patch does not apply: " + o[-300:]
            print(name, "INVALID (apply)"); save(name, diff, out, k, meta); continue
        # extra dev-dependencies / features a demo needs (never part of the diff itself)
        devdeps = meta["agent_meta"].get("dev_dependencies") or []
        demo_src = open(os.path.join(out, f"m{k}_demo.rs")).read()
        feat = " --features borsh" if 'feature = "borsh"' in demo_src else ""
        def add_devdeps():
            if devdeps:
                ct = open(os.path.join(wt, "Cargo.toml")).read()
                ct = ct.replace("[dev-dependencies]\n", "[dev-dependencies]\n" + "\n".join(devdeps) + "\n")
                open(os.path.join(wt, "Cargo.toml"), "w").write(ct)
        rc, o = sh("cargo test --offline 2>&1 | grep 'test result' | head -1", wt, env)
        meta["suite_with_change"] = o.strip()
        suite_ok = "94 passed; 0 failed" in o
        os.makedirs(os.path.join(wt, "tests"), exist_ok=True)
        shutil.copy(os.path.join(out, f"m{k}_demo.rs"), os.path.join(wt, "tests", "demo.rs"))
        add_devdeps()
        rc1, o1 = sh(f"cargo test --offline{feat} --test demo 2>&1 | grep -E 'test result|error' | head -3", wt, env)
        demo_fails_with = ("FAILED" in o1 or "failed" in o1) and "error[" not in o1
        meta["demo_with_change"] = o1.strip()
        sh("git checkout -- .", wt)
        add_devdeps()
        rc2, o2 = sh(f"cargo test --offline{feat} --test demo 2>&1 | grep -E 'test result|error' | head -3", wt, env)
        sh("git checkout -- .", wt)
        demo_passes_without = "test result: ok" in o2 and " 0 passed" not in o2
        meta["demo_without_change"] = o2.strip()
        shutil.rmtree(os.path.join(wt, "tests"), ignore_errors=True)
        meta["valid"] = bool(suite_ok and demo_fails_with and demo_passes_without)
        if not meta["valid"]:
            print(name, "INVALID", suite_ok, demo_fails_with, demo_passes_without); save(name, diff, out, k, meta); continue
        # (d) monitors against the changed worktree
        sh(f"git apply {diff}", wt)
        res = {}
        for c in checks:
            t0 = time.time()
            rc, o = sh(f"python3-vt run.py check {c} --tier quick", "/verif", dict(env, VERIF_REPO=wt))
            sigs = [l.strip()[len("signature:"):].strip() for l in o.splitlines() if l.strip().startswith("signature:")]
            res[c] = {"exit": rc, "violation": f"VIOLATION property={c}" in o, "signatures": sigs[:5], "wall_s": round(time.time() - t0, 1),
                      "last_line": (o.strip().splitlines() or [""])[-1][:300]}
        sh("git checkout -- .", wt)
        meta["quick_checks_against_change"] = res
        meta["caught_by"] = [c for c, v in res.items() if v["violation"]]
        meta["ran"] = [f"git -C {wt} apply m{k}.diff; cargo test --offline (94 passed); demo fails with / passes without the change",
                       "VERIF_REPO=<worktree> python3-vt run.py check <ID> --tier quick for: " + ",".join(checks)]
        print(name, "valid; target", "CAUGHT" if res.get(pid, {}).get("violation") else "MISSED", "caught_by", meta["caught_by"])
        save(name, diff, out, k, meta)

def save(name, diff, out, k, meta):
    d = os.path.join("/verif/seeded", name)
    os.makedirs(d, exist_ok=True)
    shutil.copy(diff, os.path.join(d, "patch.diff"))
    demo = os.path.join(out, f"m{k}_demo.rs")
    if os.path.exists(demo):
        shutil.copy(demo, os.path.join(d, "demo.rs"))
    old = {}
    mp = os.path.join(d, "meta.json")
    if os.path.exists(mp):
        try:
            old = json.load(open(mp))
        except Exception:
            old = {}
    # keep results of checks evaluated in earlier invocations
    if "quick_checks_against_change" in old and "quick_checks_against_change" in meta:
        merged = dict(old["quick_checks_against_change"]); merged.update(meta["quick_checks_against_change"])
        meta["quick_checks_against_change"] = merged
        meta["caught_by"] = sorted(c for c, v in merged.items() if v["violation"])
    json.dump(meta, open(mp, "w"), indent=1)

if __name__ == "__main__":
    main()
