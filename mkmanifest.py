#!/usr/bin/env python3
"""Regenerate MANIFEST.json from props.py (single source of truth)."""
import json, os, subprocess, sys
ROOT = os.path.dirname(os.path.abspath(__file__))
sys.path.insert(0, ROOT)
from props import PROPS

ids = [json.loads(l)["id"] for l in open(os.path.join(ROOT, "properties.jsonl"))]
hook_commits = subprocess.run(["git", "-C", "/repo", "log", "--format=%H %s"], capture_output=True, text=True).stdout
hook_commits = [l.split()[0] for l in hook_commits.splitlines() if "verif-hooks" in l]

CONC = {"C01", "C09", "C10"}
DEEP = {"C01", "C02", "C03", "C04", "C05", "C06", "C07", "C08", "C11", "C12", "C13", "C15", "C16", "C17", "C19"}
checks = []
for pid in ids:
    if pid not in PROPS or PROPS[pid].get("disabled"):
        continue
    c = PROPS[pid]
    extra_text = ""
    if pid in CONC:
        extra_text += (" A concurrent lane issues the same calls from four OS threads at once; every distinct value a call "
                       "ever returned is judged by the same oracle.")
    if pid in DEEP:
        extra_text += (" A deep lane runs the property's operations with the library compiled unoptimised on 3e5-piece inputs "
                       "(65 538 / 100 003 knots, a 400 003-coefficient PolyN) on a 2 MiB thread stack; stack exhaustion "
                       "inside a library call is reported as a violation.")
    if pid in ("C03", "C10", "C16"):
        extra_text += (" Half of the workload runs on a build with the library's observation hooks, half on the "
                       "default-features build.")
    else:
        extra_text += " Runs on the default-features build of the library (no hooks)."
    checks.append({
        "property_id": pid,
        "quick_cmd": f"python3-vt run.py check {pid} --tier quick",
        "thorough_cmd": f"python3-vt run.py check {pid} --tier thorough",
        "evidence_file": f"/verif/evidence/{pid}.json",
        "replay_cmd_template": "python3-vt run.py replay {path}",
        "engine": "ppv",
        "level_claimed": {
            "category": "exploration",
            "text": c.get("level_text", "Runtime monitoring: the property held on every execution observed; nothing is claimed about inputs that were not run.") + extra_text,
            "design_ref": c.get("design_ref", "DESIGN.md section 4, " + pid),
        },
        "level_note": c.get("level_note", "Trusted: the harness generators and oracle; IEEE-754 arithmetic of the host."),
        "technique": c.get("technique", "runtime monitoring"),
    })
na = []
for pid in ids:
    if pid not in PROPS or PROPS[pid].get("disabled"):
        na.append({"property_id": pid, "reason": PROPS.get(pid, {}).get("disabled", "monitor not built yet (work in progress); no claim is made")})
man = {
    "version": 1,
    "setup_cmd": "python3-vt run.py build",
    "hooks": {
        "guard": "cargo feature verif-hooks (off by default)",
        "enable": "the harness crate /verif/harness depends on /repo by path; its cargo feature `hooks` turns on the library's `verif-hooks`. Checks C03, C10 and C16 run half of their workload on a build with the hooks (evaluator state / executed branch observable) and half on the default-features build; every other check runs only on the default-features build, i.e. the configuration a user compiles. Every check starts with cargo build --offline of the harness, which recompiles /repo's working tree",
        "baseline_off_cmd": "cd /repo && cargo test --offline",
        "source_commits": hook_commits,
        "add_only": True,
    },
    "engines": [
        {"name": "ppv", "path": "/verif/harness", "serves_properties": [c["property_id"] for c in checks],
         "kind_free_text": "Rust driver executing the real library under generated hostile workloads; online monitors in-process, or event logs decided by the exact/multi-precision Python oracles in /verif/oracles; orchestrated by /verif/run.py"},
    ],
    "checks": checks,
    "not_applicable": na,
    "notes": "Technique family: runtime monitoring. Verdicts are three-valued (exit 0 held on observed, 1 VIOLATION, 2 INCONCLUSIVE). See DESIGN.md.",
}
json.dump(man, open(os.path.join(ROOT, "MANIFEST.json"), "w"), indent=1)
print("checks:", [c["property_id"] for c in checks], "not_applicable:", [n["property_id"] for n in na])
