#!/usr/bin/env python3
"""Orchestrator of the runtime monitors: build -> shard -> drive -> check -> verdict -> evidence.

usage:  python3-vt run.py check <ID> [--tier quick|thorough] [--shards N] [--scale F]
        python3-vt run.py replay <witness.json>
        python3-vt run.py build

exit 0: property held on everything observed (KNOWN-FINDING lines may be printed)
exit 1: at least one line  VIOLATION property=<id> replay=<path>
exit 2: INCONCLUSIVE (build failure, harness/oracle crash, watchdog, coverage floor, dead canary)
"""
import json
import os
import shutil
import subprocess
import sys
import time

ROOT = os.path.dirname(os.path.abspath(__file__))
HARNESS = os.path.join(ROOT, "harness")
TARGET = os.environ.get("VERIF_TARGET", os.path.join(ROOT, "target"))
WORK = os.path.join(ROOT, "work")
REPLAY = os.path.join(ROOT, "replay")
EVID = os.path.join(ROOT, "evidence")
ORACLES = os.path.join(ROOT, "oracles")
PY = sys.executable

# Validation of the monitors against a scratch copy of the library (seeded changes): VERIF_REPO=<worktree> builds a
# private copy of the harness against that tree with its own target / work / evidence directories, so /repo and the
# registered evidence are never touched. Registered commands never set it.
ALT = os.environ.get("VERIF_REPO")
if ALT and os.path.realpath(ALT) != "/repo":
    import hashlib
    _tag = hashlib.md5(os.path.realpath(ALT).encode()).hexdigest()[:8]
    _base = os.path.join(ROOT, "work", "alt-" + _tag)
    os.makedirs(_base, exist_ok=True)
    _h = os.path.join(_base, "harness")
    subprocess.run(["rsync", "-a", "--delete", "--exclude", "target", HARNESS + "/", _h + "/"], check=True)
    _ct = open(os.path.join(_h, "Cargo.toml")).read().replace('path = "/repo"', 'path = "%s"' % os.path.realpath(ALT))
    open(os.path.join(_h, "Cargo.toml"), "w").write(_ct)
    HARNESS = _h
    TARGET = os.path.join(_base, "target")
    WORK = os.path.join(_base, "work")
    REPLAY = os.path.join(_base, "replay")
    EVID = os.path.join(_base, "evidence")
else:
    ALT = None

sys.path.insert(0, ROOT)
from props import PROPS  # noqa: E402


def env_offline():
    e = dict(os.environ)
    e["CARGO_NET_OFFLINE"] = "true"
    e["CARGO_TARGET_DIR"] = TARGET
    e.pop("RUSTFLAGS", None)
    return e


def sync_lock():
    """The harness resolves with the repository's own lock file (offline)."""
    src = "/repo/Cargo.lock"
    dst = os.path.join(HARNESS, "Cargo.lock")
    if not os.path.exists(dst) and os.path.exists(src):
        shutil.copy(src, dst)


def install(src, dst):
    """atomic copy (a running copy of dst may exist: never open it for writing)"""
    if os.path.exists(dst):
        a, b = os.stat(src), os.stat(dst)
        if a.st_size == b.st_size and int(a.st_mtime) == int(b.st_mtime):
            return
    tmp = dst + f".tmp{os.getpid()}"
    shutil.copy2(src, tmp)
    os.replace(tmp, dst)


def build(profile="verif", features=None, bins=None):
    """Rebuild harness binaries (and with them the library from /repo's working tree; the library's verif-hooks
    feature is on only in the feature set "hooks").
    bins: list of property ids (None = all). Returns ({pid: path}, log, seconds) or (None, log, s)."""
    sync_lock()
    cmd = ["cargo", "build", "--offline", "--profile", profile]
    if bins is None:
        cmd += ["--bins"]
    else:
        for b in bins:
            cmd += ["--bin", "ppv-" + b.lower()]
    if features:
        cmd += ["--features", features]
    t0 = time.time()
    p = subprocess.run(cmd, cwd=HARNESS, env=env_offline(), stdout=subprocess.PIPE,
                       stderr=subprocess.STDOUT, text=True)
    if p.returncode != 0:
        return None, p.stdout[-4000:], time.time() - t0
    d = "release" if profile == "release" else profile
    out = {}
    names = bins if bins is not None else sorted(PROPS)
    for b in names:
        binp = os.path.join(TARGET, d, "ppv-" + b.lower())
        # keep one copy per feature set: cargo reuses the same output path for every feature set
        dst = binp + "." + (features.replace(",", "-") if features else "default")
        install(binp, dst)
        out[b] = dst
    return out, "", time.time() - t0


# properties with a part in the deep lane (src/bin/deep.rs)
DEEP_PROPS = {"C01", "C02", "C03", "C04", "C05", "C06", "C07", "C08", "C11", "C12", "C13", "C15", "C16", "C17", "C19"}


def load_known():
    known, fixed = [], []
    # VERIF_KNOWN_FILE is a test hook for the known-findings logic itself; registered commands never set it
    p = os.environ.get("VERIF_KNOWN_FILE") if ALT else None
    p = p or os.path.join(ROOT, "KNOWN_FINDINGS.txt")
    if os.path.exists(p):
        for line in open(p):
            line = line.strip()
            if line.startswith("known:"):
                rest = line[len("known:"):].strip()
                # known: property=<id> sig="<signature>" <text>
                pid = rest.split()[0].split("=", 1)[1]
                sig = rest.split('sig="', 1)[1].split('"', 1)[0]
                text = rest.split('"', 2)[2].strip()
                known.append((pid, sig, text))
            elif line.startswith("fixed:"):
                fixed.append(line)
    return known, fixed


def inconclusive(pid, reason, tier, seed, t0, extra=None):
    print(f"INCONCLUSIVE property={pid} reason={reason}")
    ev = {
        "property_id": pid, "tier": tier, "seed": seed, "level": "exploration",
        "coverage": {"evaluations": 1, "distinct_nontrivial": 2, "rule": "INCONCLUSIVE RUN - no verdict",
                     "samples": [{"inconclusive": reason}], "verdict": "inconclusive", "reason": reason},
        "wall_s": round(time.time() - t0, 3), "violations": 0,
    }
    if extra:
        ev["coverage"].update(extra)
    # an inconclusive run must not leave evidence that looks like a pass
    ev["coverage"]["evaluations"] = 1
    os.makedirs(EVID, exist_ok=True)
    with open(os.path.join(EVID, pid + ".json"), "w") as f:
        json.dump(ev, f, indent=1)
    sys.exit(2)


def run_shards(pid, cfg, binp, tier, seed, nshards, scale, wd, only_shard=None, label=""):
    """Start one driver (and, for offline oracles, one checker) per shard; return list of summaries."""
    procs = []
    shards = range(nshards) if only_shard is None else [only_shard]
    for s in shards:
        out = os.path.join(wd, f"{label}sum{s}.json")
        hs = os.path.join(wd, f"{label}hash{s}.bin")
        for f in (out, hs):
            if os.path.exists(f):
                os.remove(f)
        base = [binp, pid, "--tier", tier, "--seed", str(seed), "--shard", str(s),
                "--nshards", str(nshards), "--scale", str(scale)]
        errf = open(os.path.join(wd, f"{label}err{s}.txt"), "w")
        if cfg["kind"] == "online":
            p = subprocess.Popen(base + ["--out", out, "--hashes", hs], stdout=subprocess.DEVNULL, stderr=errf)
            procs.append((s, [p], out, hs, errf))
        else:
            p1 = subprocess.Popen(base + ["--out", "-", "--hashes", hs + ".drv"], stdout=subprocess.PIPE, stderr=errf)
            p2 = subprocess.Popen([PY, os.path.join(ORACLES, cfg["oracle"]), "--out", out, "--hashes", hs,
                                   "--tier", tier, "--prop", pid],
                                  stdin=p1.stdout, stdout=subprocess.DEVNULL, stderr=errf)
            p1.stdout.close()
            procs.append((s, [p1, p2], out, hs, errf))
    return procs


def wait_shards(procs, watchdog_s):
    t0 = time.time()
    problems = []
    for s, ps, out, hs, errf in procs:
        for p in ps:
            left = max(1.0, watchdog_s - (time.time() - t0))
            try:
                rc = p.wait(timeout=left)
            except subprocess.TimeoutExpired:
                for q in ps:
                    q.kill()
                problems.append(f"shard {s}: watchdog after {watchdog_s}s")
                break
            if rc != 0:
                problems.append(f"shard {s}: process exit {rc}")
        errf.close()
        hang = None
        for cand in (out + ".hang", hs + ".drv.hang"):
            if os.path.exists(cand):
                hang = cand
        marker = out + ".deep"
        if os.path.exists(marker) and any((p.returncode or 0) < 0 or p.returncode == 134 for p in ps):
            # deep lane: the process was killed while a library call was running on a large input. If the runtime's
            # stack guard reported it, that is an observation about the library call named in the marker file.
            errtxt = open(errf.name).read() if os.path.exists(errf.name) else ""
            if "has overflowed its stack" in errtxt:
                opname = open(marker).read().strip()
                w = {"property": None, "sig": f"{opname}: stack exhausted on a large input (unoptimised build, 2 MiB thread stack)",
                     "operation": opname, "stderr_tail": errtxt[-300:]}
                synth = {"property": None, "evaluations": 1, "distinct": 0, "counters": {}, "samples": [], "violations": [w],
                         "n_violations": 1, "violation_sigs": {w["sig"]: 1}, "max_ratio": 0.0, "max_ratio_at": None, "canaries_fed": 0,
                         "canaries_flagged": 0, "panics": 0, "notes": ["deep lane stopped by the stack guard"], "floors": [], "extra": {}, "wall_s": 0.0}
                with open(out, "w") as fo:
                    json.dump(synth, fo)
                problems = [x for x in problems if not x.startswith(f"shard {s}:")]
        if hang and any(p.returncode == 97 for p in ps):
            # the driver's CPU-time watchdog fired inside one library call: that is an observation, not a harness failure
            w = json.load(open(hang))
            w["_hang"] = True
            synth = {"property": w.get("property"), "evaluations": w.get("guarded_calls_completed", 0), "distinct": 0, "counters": {},
                     "samples": [], "violations": [w], "n_violations": 1, "violation_sigs": {w["sig"]: 1}, "max_ratio": 0.0,
                     "max_ratio_at": None, "canaries_fed": 0, "canaries_flagged": 0, "panics": 0, "notes": ["driver stopped by hang watchdog"],
                     "floors": [], "extra": {}, "wall_s": 0.0}
            for q in ps:
                if q.poll() is None:
                    q.kill()
            with open(out, "w") as fo:
                json.dump(synth, fo)
            problems = [x for x in problems if not x.startswith(f"shard {s}:")]
    return problems


def merge(procs):
    import numpy as np
    tot = {"evaluations": 0, "counters": {}, "samples": [], "violations": [], "n_violations": 0,
           "violation_sigs": {}, "max_ratio": 0.0, "max_ratio_at": None, "canaries_fed": 0,
           "canaries_flagged": 0, "panics": 0, "notes": [], "floors": [], "extra": {}, "shard_wall_s": []}
    hashes = []
    for s, ps, out, hs, errf in procs:
        d = json.load(open(out))
        tot["evaluations"] += d["evaluations"]
        for k, v in d["counters"].items():
            tot["counters"][k] = tot["counters"].get(k, 0) + v
        tot["samples"].append(d["samples"])
        for v in d["violations"]:
            v["_shard"] = s
            tot["violations"].append(v)
        tot["n_violations"] += d["n_violations"]
        for k, v in d["violation_sigs"].items():
            tot["violation_sigs"][k] = tot["violation_sigs"].get(k, 0) + v
        if d["max_ratio"] > tot["max_ratio"]:
            tot["max_ratio"] = d["max_ratio"]
            tot["max_ratio_at"] = d.get("max_ratio_at")
        tot["canaries_fed"] += d["canaries_fed"]
        tot["canaries_flagged"] += d["canaries_flagged"]
        tot["panics"] += d["panics"]
        tot["notes"] += d.get("notes", [])
        for f in d.get("floors", []):
            if f not in tot["floors"]:
                tot["floors"].append(f)
        for k, v in d.get("extra", {}).items():
            if isinstance(v, (int, float)) and not isinstance(v, bool):
                if k.startswith("max_"):
                    tot["extra"][k] = max(tot["extra"].get(k, 0), v)
                else:
                    tot["extra"][k] = tot["extra"].get(k, 0) + v
            else:
                tot["extra"].setdefault(k, v)
        tot["shard_wall_s"].append(round(d.get("wall_s", 0.0), 2))
        if os.path.exists(hs) and os.path.getsize(hs) > 0:
            hashes.append(np.fromfile(hs, dtype="<u8"))
    if hashes:
        allh = np.concatenate(hashes)
        tot["distinct"] = int(np.unique(allh).size)
    else:
        tot["distinct"] = 0
    # interleave samples from shards, bounded, one per class first
    samples, seen = [], set()
    for lst in tot["samples"]:
        for smp in lst:
            c = smp.get("class") if isinstance(smp, dict) else None
            if c not in seen and len(samples) < 24:
                seen.add(c)
                samples.append(smp)
    tot["samples"] = samples
    return tot


def sweep(pid, tot, bins, ids, tier, seed, nshards, scale, wd, watchdog, t0):
    """C16's panic sweep: every other driver at reduced scale, events discarded, only panics transferred."""
    per = max(1, nshards // 4)
    for q in ids:
        procs = []
        for s_ in range(per):
            out = os.path.join(wd, f"sweep-{q}-{s_}.json")
            errf = open(os.path.join(wd, f"sweep-{q}-{s_}.err"), "w")
            p = subprocess.Popen([bins[q], q, "--tier", tier, "--seed", str(seed ^ 0x16), "--shard", str(s_), "--nshards", str(per),
                                  "--scale", str(scale * 0.1), "--out", out], stdout=subprocess.DEVNULL, stderr=errf)
            procs.append((s_, [p], out, "", errf))
        problems = wait_shards(procs, watchdog)
        if problems:
            inconclusive(pid, f"sweep-driver-{q}-failed:" + ";".join(problems)[:200], tier, seed, t0)
        ops = 0
        for s_, ps, out, hs, errf in procs:
            d = json.load(open(out))
            ops += d["evaluations"]
            for v in d["violations"]:
                if "panic" in v or v.get("_hang"):
                    sig = f"{'hang' if v.get('_hang') else 'panic'} in {q} workload: {v.get('sig', '?')}"
                    tot["violation_sigs"][sig] = tot["violation_sigs"].get(sig, 0) + 1
                    tot["n_violations"] += 1
                    tot["panics"] += 1
                    v = dict(v)
                    v["sig"] = sig
                    v["_shard"] = 0
                    tot["violations"].append(v)
        tot["counters"]["sweep_ops"] = tot["counters"].get("sweep_ops", 0) + ops
        tot["counters"]["sweep_ops:" + q] = ops
        tot["evaluations"] += ops
    if "sweep_ops" not in tot["floors"]:
        tot["floors"].append("sweep_ops")


def collapse(counters, limit=40):
    """group very wide counter families (e.g. one key per field position) for the evidence file"""
    fam = {}
    for k in counters:
        pre = k.split(":", 1)[0] if ":" in k else None
        fam.setdefault(pre, []).append(k)
    out = {}
    for pre, keys in fam.items():
        if pre is None or len(keys) <= limit:
            for k in keys:
                out[k] = counters[k]
        else:
            vals = [counters[k] for k in keys]
            out[pre + ":*"] = {"keys": len(keys), "min": min(vals), "max": max(vals), "total": sum(vals),
                               "examples": {k: counters[k] for k in sorted(keys)[:6]}}
    return out


def check(pid, tier, nshards, scale):
    t0 = time.time()
    seed = int(os.environ.get("VERIF_SEED", "1"))
    if pid not in PROPS:
        print(f"unknown property {pid}")
        sys.exit(3)
    cfg = PROPS[pid]
    os.makedirs(EVID, exist_ok=True)
    evp = os.path.join(EVID, pid + ".json")
    if os.path.exists(evp):
        os.remove(evp)
    wd = os.path.join(WORK, pid)
    shutil.rmtree(wd, ignore_errors=True)
    os.makedirs(wd, exist_ok=True)

    # ---- build from /repo's current working tree (default features; hooks only in the "hooks" configuration)
    configs = cfg.get("configs", [dict(profile="verif", features=None, label="")])
    if tier == "thorough":
        configs = cfg.get("configs_thorough", configs)
    builds = []
    build_s = 0.0
    sweep_ids = [q for q in sorted(PROPS) if q != pid] if cfg.get("sweep") else []
    for c in configs:
        bins, log, dt = build(c["profile"], c.get("features"), [pid] + (sweep_ids if not c.get("features") else []))
        build_s += dt
        if bins is None:
            print(log)
            inconclusive(pid, "harness-or-library-build-failed", tier, seed, t0)
        builds.append((c, bins[pid], bins))

    watchdog = cfg.get("watchdog_s", {"quick": 900, "thorough": 4 * 3600})[tier]
    totals = []
    for c, binp, allbins in builds:
        procs = run_shards(pid, cfg, binp, tier, seed + c.get("seed_add", 0), nshards, scale * c.get("scale_mul", 1.0), wd,
                           label=c.get("label", ""))
        problems = wait_shards(procs, watchdog)
        if problems:
            for s, ps, out, hs, errf in procs:
                ep = os.path.join(wd, f"{c.get('label','')}err{s}.txt")
                if os.path.exists(ep) and os.path.getsize(ep):
                    sys.stdout.write(open(ep).read()[-3000:])
            inconclusive(pid, "driver-or-oracle-failed:" + ";".join(problems)[:300], tier, seed, t0)
        tot = merge(procs)
        tot["config"] = c
        totals.append(tot)
        if cfg.get("sweep") and not c.get("features"):
            sweep(pid, tot, allbins, sweep_ids, tier, seed, nshards, scale, wd, watchdog, t0)

    # ---- deep lane: the library compiled without optimisation, very large inputs, 2 MiB thread stack (src/bin/deep.rs)
    if pid in DEEP_PROPS:
        dbins, log, dt = build("verifdbg", None, ["deep"])
        build_s += dt
        if dbins is None:
            print(log)
            inconclusive(pid, "harness-or-library-build-failed (deep lane)", tier, seed, t0)
        dcfg = dict(cfg, kind="online")
        procs = run_shards(pid, dcfg, dbins["deep"], tier, seed, 1, scale, wd, label="deep-")
        problems = wait_shards(procs, watchdog)
        if problems:
            ep = os.path.join(wd, "deep-err0.txt")
            if os.path.exists(ep) and os.path.getsize(ep):
                sys.stdout.write(open(ep).read()[-3000:])
            inconclusive(pid, "deep-lane-failed:" + ";".join(problems)[:300], tier, seed, t0)
        tot = merge(procs)
        for v in tot["violations"]:
            v.setdefault("property", pid)
            v["property"] = pid
            v["_config"] = "deep"
        tot["config"] = dict(profile="verifdbg", features=None, label="deep-")
        totals.append(tot)

    # ---- combine configurations
    tot = totals[0]
    for t in totals[1:]:
        tot["evaluations"] += t["evaluations"]
        for k, v in t["counters"].items():
            kk = k
            tot["counters"][kk] = tot["counters"].get(kk, 0) + v
        tot["violations"] += t["violations"]
        tot["n_violations"] += t["n_violations"]
        for k, v in t["violation_sigs"].items():
            tot["violation_sigs"][k] = tot["violation_sigs"].get(k, 0) + v
        tot["canaries_fed"] += t["canaries_fed"]
        tot["canaries_flagged"] += t["canaries_flagged"]
        tot["panics"] += t["panics"]
        tot["distinct"] = max(tot["distinct"], t["distinct"])
        for f_ in t.get("floors", []):
            if f_ not in tot["floors"]:
                tot["floors"].append(f_)
        tot["max_ratio"] = max(tot["max_ratio"], t["max_ratio"])
        tot["samples"] += t["samples"][:4]
    per_config = [{"config": t["config"], "evaluations": t["evaluations"], "distinct": t["distinct"]} for t in totals]

    # ---- verdict
    known, _fixed = load_known()
    known_here = [(sig, text) for (p, sig, text) in known if p == pid]
    reported, known_hits = [], {}
    for v in tot["violations"]:
        sig = v.get("sig", "?")
        hit = [k for k in known_here if k[0] == sig]
        if hit:
            known_hits[sig] = hit[0][1]
        else:
            reported.append(v)
    # violations whose witnesses were capped away still count through violation_sigs
    unknown_sigs = [s for s in tot["violation_sigs"] if not any(k[0] == s for k in known_here)]

    floors_missing = [f for f in tot["floors"] if tot["counters"].get(f, 0) == 0]
    canary_dead = tot["canaries_fed"] == 0 or tot["canaries_flagged"] < tot["canaries_fed"]

    cov = {
        "evaluations": int(tot["evaluations"]),
        "distinct_nontrivial": int(tot["distinct"]),
        "rule": cfg["rule"],
        "samples": tot["samples"],
        "observed": collapse(tot["counters"]),
        "floors_required": tot["floors"],
        "floors_missing": floors_missing,
        "max_ratio_observed_over_tolerance": tot["max_ratio"],
        "max_ratio_at": tot["max_ratio_at"],
        "canaries_fed": tot["canaries_fed"],
        "canaries_flagged": tot["canaries_flagged"],
        "panics_observed": tot["panics"],
        "violation_signatures": tot["violation_sigs"],
        "known_findings_hit": known_hits,
        "shards": nshards,
        "per_configuration": per_config,
        "build_s": round(build_s, 2),
        "shard_wall_s": tot["shard_wall_s"],
        "extra": tot["extra"],
        "notes": sorted(set(tot["notes"]))[:20],
        "exhaustive": False,
    }
    if tot["counters"].get("exploration_states"):
        cov["states"] = int(tot["counters"]["exploration_states"])
        cov["transitions"] = int(tot["counters"].get("exploration_transitions", 0))
    ev = {
        "property_id": pid, "tier": tier, "seed": seed, "level": "exploration", "coverage": cov,
        "assumptions": cfg.get("assumptions", []),
        "wall_s": round(time.time() - t0, 3),
        "violations": len(unknown_sigs),
    }

    if unknown_sigs:
        os.makedirs(os.path.join(REPLAY, pid), exist_ok=True)
        cov["verdict"] = "violated"
        with open(evp, "w") as f:
            json.dump(ev, f, indent=1)
        done = set()
        for i, v in enumerate(reported):
            if v["sig"] in done:
                continue
            done.add(v["sig"])
            v["_replay"] = {"property": pid, "tier": tier, "seed": seed, "shard": v.get("_shard", 0),
                            "nshards": nshards, "scale": scale}
            path = os.path.join(REPLAY, pid, f"witness_{len(done)}.json")
            with open(path, "w") as f:
                json.dump(v, f, indent=1)
            print(f"VIOLATION property={pid} replay={path}")
            print("  signature: " + v["sig"] + f"   (x{tot['violation_sigs'].get(v['sig'], 1)})")
        for sig, text in known_hits.items():
            print(f"KNOWN-FINDING: property={pid} {sig}: {text}")
        sys.exit(1)

    for sig, text in known_hits.items():
        print(f"KNOWN-FINDING: property={pid} {sig}: {text}")

    broken_shards = tot["counters"].get("harness_panic_shard_aborted", 0)
    skipped = tot["counters"].get("oracle_exception_event_skipped", 0)
    if broken_shards * 4 > nshards or skipped > max(5, cov["evaluations"] // 1000):
        inconclusive(pid, f"harness-errors:shards_aborted={broken_shards},oracle_events_skipped={skipped}", tier, seed, t0,
                     {"observed": tot["counters"]})
    if broken_shards or skipped:
        print(f"NOTE property={pid} harness errors tolerated: shards_aborted={broken_shards} oracle_events_skipped={skipped} (see evidence notes)")
    if canary_dead:
        inconclusive(pid, f"canaries-not-flagged:{tot['canaries_flagged']}/{tot['canaries_fed']}", tier, seed, t0,
                     {"observed": tot["counters"]})
    if floors_missing:
        inconclusive(pid, "coverage-floor-not-reached:" + ",".join(floors_missing), tier, seed, t0,
                     {"observed": tot["counters"]})
    if cov["distinct_nontrivial"] < 2 or cov["evaluations"] < 1:
        inconclusive(pid, "observed-nothing", tier, seed, t0)

    cov["verdict"] = "held-on-observed"
    with open(evp, "w") as f:
        json.dump(ev, f, indent=1)
    shutil.rmtree(wd, ignore_errors=True)
    print(f"HELD property={pid} tier={tier} seed={seed} evaluations={cov['evaluations']} "
          f"distinct={cov['distinct_nontrivial']} max_ratio={tot['max_ratio']:.3g} "
          f"canaries={tot['canaries_flagged']}/{tot['canaries_fed']} wall={ev['wall_s']}s")
    sys.exit(0)


def replay(path):
    w = json.load(open(path))
    r = w["_replay"]
    pid = r["property"]
    cfg = PROPS[pid]
    os.environ["VERIF_SEED"] = str(r["seed"])
    configs = cfg.get("configs", [dict(profile="verif", features=None, label="")])
    wd = os.path.join(WORK, pid + "-replay")
    shutil.rmtree(wd, ignore_errors=True)
    os.makedirs(wd, exist_ok=True)
    found = 0
    for c in configs:
        bins, log, dt = build(c["profile"], c.get("features"), [pid])
        if bins is None:
            print(log)
            print("INCONCLUSIVE build failed")
            sys.exit(2)
        binp = bins[pid]
        procs = run_shards(pid, cfg, binp, r["tier"], r["seed"] + c.get("seed_add", 0), r["nshards"],
                           r["scale"] * c.get("scale_mul", 1.0), wd, only_shard=r["shard"], label=c.get("label", ""))
        problems = wait_shards(procs, 4 * 3600)
        if problems:
            print("INCONCLUSIVE", problems)
            sys.exit(2)
        tot = merge(procs)
        for v in tot["violations"]:
            if v.get("sig") == w.get("sig"):
                found += 1
                if found <= 3:
                    print(json.dumps(v, indent=1))
    if pid in DEEP_PROPS and w.get("_config") == "deep":
        dbins, log, dt = build("verifdbg", None, ["deep"])
        if dbins is None:
            print(log)
            print("INCONCLUSIVE build failed")
            sys.exit(2)
        procs = run_shards(pid, dict(cfg, kind="online"), dbins["deep"], r["tier"], r["seed"], 1, r["scale"], wd, label="deep-")
        problems = wait_shards(procs, 4 * 3600)
        if problems:
            print("INCONCLUSIVE", problems)
            sys.exit(2)
        for v in merge(procs)["violations"]:
            if v.get("sig") == w.get("sig"):
                found += 1
                if found <= 3:
                    print(json.dumps(v, indent=1))
    print(f"replayed shard {r['shard']}/{r['nshards']} seed {r['seed']} tier {r['tier']}: "
          f"{found} recorded witness(es) with signature {w.get('sig')!r}")
    if found:
        print(f"VIOLATION property={pid} replay={path}")
        sys.exit(1)
    sys.exit(0)


def main():
    a = sys.argv[1:]
    if not a:
        print(__doc__)
        sys.exit(3)
    if a[0] == "build":
        ok = True
        for prof, feat, bins in (("verif", None, None), ("verif", "borsh", ["C18"]), ("verif", "hooks", ["C03", "C10", "C16"]),
                                 ("verifdbg", None, ["deep"])):
            b, log, dt = build(prof, feat, bins)
            print(f"build profile={prof} features={feat}: {'ok' if b else 'FAILED'} {dt:.1f}s")
            if not b:
                print(log)
                ok = False
        sys.exit(0 if ok else 2)
    if a[0] == "check":
        pid = a[1]
        tier = os.environ.get("VERIF_TIER", "quick")
        nshards = min(16, os.cpu_count() or 4)
        scale = 1.0
        i = 2
        while i < len(a):
            if a[i] == "--tier":
                tier = a[i + 1]
            elif a[i] == "--shards":
                nshards = int(a[i + 1])
            elif a[i] == "--scale":
                scale = float(a[i + 1])
            i += 2
        check(pid, tier, nshards, scale)
    if a[0] == "replay":
        replay(a[1])
    print(__doc__)
    sys.exit(3)


if __name__ == "__main__":
    main()
